package main

import (
	"go/token"
	"go/types"
	"strings"

	"golang.org/x/tools/go/ssa"
)

func init() {
	register(
		&Rule{ID: "RV-ENUM", Doc: "RevocationIds returns the authority signature followed by the signature of every block, in order, unfiltered", Run: ruleRVEnum, Min: 3},
		&Rule{ID: "WR-VERBATIM", Doc: "derived envelopes reuse the parent's signed blocks verbatim (same Authority pointer, full copy of Blocks, at most one new block appended at the end); Serialize marshals the stored envelope", Run: ruleWRVerbatim, Min: 5},
		&Rule{ID: "SEAL-GUARD", Doc: "Append and Seal refuse (error) when the token has no next secret, before signing anything", Run: ruleSealGuard, Min: 4},
		&Rule{ID: "DERIVE-SAME", Doc: "the token returned by Append holds a complete copy of the parent's authority block and of every parent block at the same index, then the appended block", Run: ruleDeriveSame, Min: 3},
		&Rule{ID: "SEAL-SAME", Doc: "the sealed token carries copies of the parent's authority, blocks and symbols and the same signed blocks", Run: ruleSealSame, Min: 5},
		&Rule{ID: "RV-FRESH", Doc: "every operation that signs returns the token it has just signed (no memoised or shared token): each call draws its own key and produces its own signature", Run: ruleRVFresh, Min: 3},
		&Rule{ID: "SEAL-NOPROOF", Doc: "no code reachable from the authorizer's methods reads the token's proof", Run: ruleSealNoProof, Min: 1},
	)
}

// singleAppend: v == append(base, elem) with exactly one non-spread element.
func singleAppend(v ssa.Value) (base, elem ssa.Value, ok bool) {
	c, isC := v.(*ssa.Call)
	if !isC {
		return nil, nil, false
	}
	bi, isB := c.Call.Value.(*ssa.Builtin)
	if !isB || bi.Name() != "append" || len(c.Call.Args) != 2 {
		return nil, nil, false
	}
	sl, isS := c.Call.Args[1].(*ssa.Slice)
	if !isS {
		return nil, nil, false
	}
	a, isA := sl.X.(*ssa.Alloc)
	if !isA {
		return nil, nil, false
	}
	arr, isArr := deref(a.Type()).Underlying().(*types.Array)
	if !isArr || arr.Len() != 1 {
		return nil, nil, false
	}
	sts := storesInto(a)
	if len(sts) != 1 {
		return nil, nil, false
	}
	return c.Call.Args[0], sts[0].Val, true
}

func ruleRVEnum(p *Prog, r *Reporter) {
	globalP = p
	fn := p.Func("biscuit", "Biscuit", "RevocationIds")
	if fn == nil {
		r.Dunno("?", "biscuit.Biscuit.RevocationIds", "method", "not found")
		return
	}
	name := p.FuncName(fn)
	T := fn.Params[0].Name()
	rets := returnsOf(fn)
	if len(rets) != 1 {
		r.Bad(p.Pos(fn.Pos()), name, "returns", "expected a single return")
		return
	}
	res := retVal(rets[0], 0)
	var rl *rangeLoop
	for _, l := range rangeLoops(fn) {
		if p.D(l.seq) == T+".container.Blocks" {
			rl = l
		}
	}
	if rl == nil {
		r.Bad(p.Pos(fn.Pos()), name, "block loop", "no full-range loop over "+T+".container.Blocks: some blocks have no revocation identifier")
		return
	}
	ph, ok := res.(*ssa.Phi)
	if !ok || ph.Block() != rl.header {
		r.Bad(p.instrPos(rets[0]), name, "result", "the returned slice is not the one accumulated by the loop over the blocks")
		return
	}
	okAuth, okBlocks := false, true
	whyB := ""
	for i, e := range ph.Edges {
		pred := rl.header.Preds[i]
		base, elem, isApp := singleAppend(e)
		if !rl.body[pred] {
			okAuth = isApp && p.D(elem) == T+".container.Authority.Signature" && isEmptyFresh(base)
			continue
		}
		if !isApp || base != ssa.Value(ph) {
			okBlocks, whyB = false, "an iteration does not append exactly one identifier to the result (a block is skipped or filtered)"
			continue
		}
		x, isSig := loadOfField(elem, "Signature")
		if !isSig || !rl.isElem(x) {
			okBlocks, whyB = false, "the identifier appended for a block is "+shortD(elem)+", not that block's signature"
		}
	}
	r.Check(okAuth, p.Pos(fn.Pos()), name, "authority identifier first", "result starts (empty base) with the authority block's signature", "the result does not start with exactly the authority block's signature")
	r.Check(okBlocks, p.instrPos(rl.header.Instrs[0]), name, "one identifier per block", "each iteration appends the current block's signature, unconditionally and in order", whyB)
	r.Check(rets[0].Block() == rl.doneBB || rl.doneBB.Dominates(rets[0].Block()), p.instrPos(rets[0]), name, "returned after exhaustion", "returned after the loop completed", "returned before the loop over the blocks completed")
}

func ruleWRVerbatim(p *Prog, r *Reporter) {
	globalP = p
	n := 0
	for _, fn := range p.funcsIn("biscuit") {
		tok := tokenParam(fn)
		for _, a := range allocsOf(fn, "pb", "Biscuit") {
			if passedTo(a, "google.golang.org/protobuf/proto.Unmarshal") {
				continue
			}
			n++
			name := p.FuncName(fn)
			pos := p.instrPos(a)
			f := litFields(a)
			if tok == nil {
				// root constructor: exactly one new signed block as authority, no blocks
				_, hasBlocks := f["Blocks"]
				au, isAlloc := f["Authority"].(*ssa.Alloc)
				r.Check(!hasBlocks && isAlloc && isNamed(deref(au.Type()), pkgPathOf("pb"), "SignedBlock"), pos, name, "root envelope", "authority is the newly signed block, no further blocks", "root envelope is not {Authority: new signed block, Blocks: none}")
				continue
			}
			T := tok.Name()
			r.Check(p.D(f["Authority"]) == T+".container.Authority", pos, name, "envelope Authority", "same signed authority block as the parent (pointer copy, not re-encoded)", "the derived envelope's Authority is "+shortD(f["Authority"])+", not the parent's signed authority block")
			// Blocks: full copy of parent's, plus at most one appended new SignedBlock literal at the end
			blocks := p.finalFieldValue(a, "Blocks")
			ok, why := p.verbatimBlocks(blocks, T)
			r.Check(ok, pos, name, "envelope Blocks", "full copy of the parent's signed blocks"+why, "the derived envelope's Blocks are not a full, in-order copy of the parent's signed blocks (plus at most one new block at the end): "+why)
		}
	}
	// Serialize marshals the stored envelope; Unmarshal stores the decoded envelope itself
	if fn := p.Func("biscuit", "Biscuit", "Serialize"); fn != nil {
		ok := false
		for _, c := range callsIn(fn) {
			if isCallTo(c.Common(), "google.golang.org/protobuf/proto.Marshal") && p.D(c.Common().Args[0]) == fn.Params[0].Name()+".container" {
				ok = true
				// every return hands out exactly what Marshal produced (no cached or caller-supplied bytes)
				for _, ret := range returnsOf(fn) {
					e0, is0 := retVal(ret, 0).(*ssa.Extract)
					if !is0 || e0.Tuple != ssa.Value(c.(*ssa.Call)) {
						if !isErrorReturn(ret) {
							ok = false
						}
					}
				}
			}
		}
		r.Check(ok, p.Pos(fn.Pos()), p.FuncName(fn), "Serialize", "marshals the stored envelope (existing block bytes are never re-encoded)", "Serialize does not marshal the token's stored envelope")
	} else {
		r.Dunno("?", "biscuit.Biscuit.Serialize", "method", "not found")
	}
	for _, fn := range p.funcsIn("biscuit") {
		for _, a := range allocsOf(fn, "pb", "Biscuit") {
			if !passedTo(a, "google.golang.org/protobuf/proto.Unmarshal") {
				continue
			}
			ok := false
			for _, b := range allocsOf(fn, "biscuit", "Biscuit") {
				if litFields(b)["container"] == ssa.Value(a) {
					ok = true
				}
			}
			r.Check(ok, p.instrPos(a), p.FuncName(fn), "decoded envelope kept", "the decoded envelope itself becomes the token's container", "the decoded envelope is not what the token keeps")
		}
	}
	if n == 0 {
		r.Bad("?", "biscuit", "envelopes", "no pb.Biscuit literal found")
	}
}

// finalFieldValue: the last value stored into field name of local literal a (stores after the literal included).
func (p *Prog) finalFieldValue(a *ssa.Alloc, name string) ssa.Value {
	var best *ssa.Store
	for _, ref := range *a.Referrers() {
		fa, ok := ref.(*ssa.FieldAddr)
		if !ok || fieldName(fa) != name {
			continue
		}
		for _, rr := range *fa.Referrers() {
			if st, ok := rr.(*ssa.Store); ok && st.Addr == ssa.Value(fa) {
				if best == nil || instrDominates(best, st) {
					best = st
				}
			}
		}
	}
	if best == nil {
		return nil
	}
	return best.Val
}

// verbatimBlocks: v is append(empty, T.container.Blocks...) optionally followed by one append of a new SignedBlock.
func (p *Prog) verbatimBlocks(v ssa.Value, T string) (bool, string) {
	if v == nil {
		return false, "Blocks not set"
	}
	extra := ""
	if base, elem, ok := singleAppend(v); ok {
		if a, isA := elem.(*ssa.Alloc); !isA || !isNamed(deref(a.Type()), pkgPathOf("pb"), "SignedBlock") {
			return false, "the appended element is not a newly signed block"
		}
		extra = " + one new signed block at the end"
		v = base
		// base may be a load of the literal's own field
		if u, isU := v.(*ssa.UnOp); isU && u.Op == token.MUL {
			if fa, isFA := u.X.(*ssa.FieldAddr); isFA {
				if al, isAl := fa.X.(*ssa.Alloc); isAl {
					var best *ssa.Store
					for _, ref := range *al.Referrers() {
						fb, ok := ref.(*ssa.FieldAddr)
						if !ok || fb.Field != fa.Field {
							continue
						}
						for _, rr := range *fb.Referrers() {
							if st, ok := rr.(*ssa.Store); ok && st.Addr == ssa.Value(fb) && instrDominates(st, u) {
								if best == nil || instrDominates(best, st) {
									best = st
								}
							}
						}
					}
					if best != nil {
						v = best.Val
					}
				}
			}
		}
	}
	c, isC := v.(*ssa.Call)
	if !isC {
		return false, "not built by append"
	}
	bi, isB := c.Call.Value.(*ssa.Builtin)
	if !isB || bi.Name() != "append" || len(c.Call.Args) != 2 {
		return false, "not built by append"
	}
	if !isEmptyFresh(c.Call.Args[0]) {
		return false, "the copy does not start from an empty slice"
	}
	if p.D(c.Call.Args[1]) != T+".container.Blocks" {
		return false, "copied from " + shortD(c.Call.Args[1]) + " instead of " + T + ".container.Blocks (partial or reordered copy)"
	}
	return true, extra
}

func ruleSealGuard(p *Prog, r *Reporter) {
	globalP = p
	n := 0
	for _, fn := range p.funcsIn("biscuit") {
		tok := tokenParam(fn)
		if tok == nil || fn.Parent() != nil {
			continue
		}
		var env *ssa.Alloc
		for _, a := range allocsOf(fn, "pb", "Biscuit") {
			if !passedTo(a, "google.golang.org/protobuf/proto.Unmarshal") {
				env = a
			}
		}
		if env == nil {
			continue
		}
		n++
		name := p.FuncName(fn)
		T := tok.Name()
		secret := "pb.Proof.GetNextSecret(" + T + ".container.Proof)"
		guarded := func(b *ssa.BasicBlock) bool { return nilGuard(p, b, secret, false) }
		for _, c := range callsIn(fn) {
			if isCallTo(c.Common(), "crypto/ed25519.Sign") {
				r.Check(guarded(c.Block()), p.instrPos(c), name, "Sign under next-secret guard", "signing happens only when the token still has a next secret", "a sealed token (no next secret) reaches a Sign call: it can be extended or re-sealed")
				// the signing key must be derived from that secret
				key := p.D(c.Common().Args[0])
				r.Check(key == "crypto/ed25519.NewKeyFromSeed("+secret+")", p.instrPos(c), name, "signing key", "new block / seal signed with the key derived from the token's next secret", "the block is signed with "+key+" instead of the key derived from the token's next secret")
			}
		}
		for _, ret := range returnsOf(fn) {
			if isErrorReturn(ret) {
				continue
			}
			r.Check(guarded(ret.Block()), p.instrPos(ret), name, "success under next-secret guard", "a derived token is returned only when the parent had a next secret", "a derived token is returned for a token without next secret")
		}
	}
	if n == 0 {
		r.Bad("?", "biscuit", "derivation methods", "no method derives a new envelope from a token")
	}
}

func ruleSealSame(p *Prog, r *Reporter) {
	globalP = p
	// the sealing method: the one that signs a seal payload
	var seal *ssa.Function
	for _, fn := range p.funcsIn("biscuit") {
		for _, c := range callsIn(fn) {
			if isCallTo(c.Common(), "crypto/ed25519.Sign") && p.payloadOf(c.Common().Args[1]).shape == "seal" {
				seal = fn
			}
		}
	}
	if seal == nil {
		r.Bad("?", "biscuit", "sealing method", "no function signs a seal payload")
		return
	}
	name := p.FuncName(seal)
	tok := tokenParam(seal)
	if tok == nil {
		r.Bad(p.Pos(seal.Pos()), name, "receiver", "sealing function has no token parameter")
		return
	}
	T := tok.Name()
	var lit *ssa.Alloc
	for _, a := range allocsOf(seal, "biscuit", "Biscuit") {
		lit = a
	}
	if lit == nil {
		r.Bad(p.Pos(seal.Pos()), name, "result", "no Biscuit literal")
		return
	}
	f := litFields(lit)
	pos := p.instrPos(lit)
	// a whole-struct copy of the parent inherits every field that is not explicitly overridden (caches, memoised encodings)
	if sts := storesDirect(lit); len(sts) > 0 {
		st := deref(lit.Type()).Underlying().(*types.Struct)
		for i := 0; i < st.NumFields(); i++ {
			if _, set := f[st.Field(i).Name()]; !set {
				r.Bad(pos, name, "inherited field "+st.Field(i).Name(), "the sealed token starts as a copy of the whole parent struct and field "+st.Field(i).Name()+" is not overridden: state of the unsealed token (for instance a cached serialisation that still holds the next secret) leaks into the sealed one")
			}
		}
	}
	// authority: new Block holding a copy of *T.authority
	okAuth, whyAuth := blockCopy(p, f["authority"], func(x ssa.Value) bool { return p.D(x) == T+".authority" })
	r.Check(okAuth, pos, name, "authority", "copy of the parent's authority block", "the sealed token's authority block is not a copy of the parent's: "+whyAuth)
	// blocks: make(len(T.blocks)) filled by a full-range loop with copies of each block
	okBlocks := false
	why := "blocks are not a full element-wise copy of the parent's blocks"
	if mk, ok := f["blocks"].(*ssa.MakeSlice); ok && p.D(mk.Len) == "len("+T+".blocks)" {
		for _, rl := range rangeLoops(seal) {
			if p.D(rl.seq) != T+".blocks" {
				continue
			}
			for b := range rl.body {
				for _, in := range b.Instrs {
					st, isSt := in.(*ssa.Store)
					if !isSt {
						continue
					}
					// blocks[i] = &copied, with copied := *old
					if _, isAl := st.Val.(*ssa.Alloc); isAl {
						if ia, isIA := st.Addr.(*ssa.IndexAddr); isIA && ia.X == ssa.Value(mk) && ia.Index == ssa.Value(rl.incr) {
							if c, _ := blockCopy(p, st.Val, func(x ssa.Value) bool { return rl.isElem(x) }); c {
								okBlocks = true
							}
						}
					}
					// *blocks[i] = *old
					if ld, isLd := st.Val.(*ssa.UnOp); isLd && ld.Op == token.MUL && rl.isElem(ld.X) {
						if dl, isDl := st.Addr.(*ssa.UnOp); isDl {
							if ia, isIA := dl.X.(*ssa.IndexAddr); isIA && ia.X == ssa.Value(mk) && ia.Index == ssa.Value(rl.incr) {
								okBlocks = true
							}
						}
					}
				}
			}
		}
	}
	r.Check(okBlocks, pos, name, "blocks", "every block copied at the same index", why)
	r.Check(p.D(f["symbols"]) == "datalog.SymbolTable.Clone("+T+".symbols)", pos, name, "symbols", "clone of the parent's symbol table", "the sealed token's symbols are "+shortD(f["symbols"])+", not a clone of the parent's")
	// container: verbatim, nothing appended, proof = final signature
	env, _ := f["container"].(*ssa.Alloc)
	if env == nil {
		r.Bad(pos, name, "container", "container is not a new envelope literal")
		return
	}
	blocks := p.finalFieldValue(env, "Blocks")
	ok, w := p.verbatimBlocks(blocks, T)
	r.Check(ok && w == "", pos, name, "container blocks", "exactly the parent's signed blocks (none added, none dropped)", "sealing changes the list of signed blocks: "+w)
	okProof := false
	if pr, isA := litFields(env)["Proof"].(*ssa.Alloc); isA {
		if c, isA2 := unwrap(litFields(pr)["Content"]).(*ssa.Alloc); isA2 && strings.HasSuffix(shortType(deref(c.Type())), "Proof_FinalSignature") {
			okProof = true
		}
	}
	r.Check(okProof, pos, name, "container proof", "proof replaced by the final signature (no next secret kept)", "the sealed envelope's proof is not a Proof_FinalSignature")
}

func ruleSealNoProof(p *Prog, r *Reporter) {
	globalP = p
	_, ms := authorizerImpl(p)
	reach := p.CG().Reach(ms...)
	n := 0
	for _, fn := range sortedFuncs(p, reach) {
		if fn.Name() == "NewVerifier" {
			continue
		}
		name := p.FuncName(fn)
		if p.pkgShort(fn) == "pb" {
			continue
		}
		for _, b := range fn.Blocks {
			for _, in := range b.Instrs {
				switch x := in.(type) {
				case *ssa.FieldAddr:
					if fieldName(x) == "Proof" && isNamed(deref(x.X.Type()), pkgPathOf("pb"), "Biscuit") {
						n++
						r.Bad(p.instrPos(x), name, "read of pb.Biscuit.Proof", "authorization code reads the token's proof: the outcome can differ between a sealed token and the token it was sealed from")
					}
				case ssa.CallInstruction:
					if f := x.Common().StaticCallee(); f != nil && p.pkgShort(f) == "pb" {
						switch f.Name() {
						case "GetProof", "GetNextSecret", "GetFinalSignature":
							n++
							r.Bad(p.instrPos(x), name, "call "+f.Name(), "authorization code inspects the token's proof")
						}
					}
				}
			}
		}
	}
	if n == 0 {
		r.OK("-", "Reach(authorizer methods)", "no proof access", "none of the functions reachable from the authorizer's methods reads pb.Biscuit.Proof")
	}
}

func ruleRVFresh(p *Prog, r *Reporter) {
	globalP = p
	o := p.own()
	// functions that (transitively) sign
	signs := map[*ssa.Function]bool{}
	for _, fn := range p.funcsIn("biscuit") {
		for f := range p.CG().Reach(fn) {
			if calleeName(f) == "crypto/ed25519.Sign" {
				signs[fn] = true
			}
		}
	}
	for _, fn := range p.funcsIn("biscuit") {
		if !signs[fn] || fn.Parent() != nil {
			continue
		}
		res := fn.Signature.Results()
		if res.Len() == 0 || !isRepoNamed(res.At(0).Type(), "biscuit", "Biscuit") {
			continue
		}
		name := p.FuncName(fn)
		for _, ret := range returnsOf(fn) {
			v := retVal(ret, 0)
			if isNilConst(v) {
				continue
			}
			og := o.origin(v)
			fresh := og.kind == oNone
			what := "freshly built token"
			if !fresh {
				what = "the returned token is " + shortD(v) + ", which belongs to " + rootName(p, og.root) + ": a stored token is handed out again instead of signing a new one, so separate issuances share signatures / revocation identifiers"
			}
			r.Check(fresh, p.instrPos(ret), name, "returned token", "each call returns the token it has just built and signed", what)
		}
	}
}

// blockCopy: is v (a *Block) the source block itself or a complete copy of it?
// isSrc recognises the pointer to the source block.
func blockCopy(p *Prog, v ssa.Value, isSrc func(ssa.Value) bool) (bool, string) {
	if isSrc(v) {
		return true, ""
	}
	a, ok := v.(*ssa.Alloc)
	if !ok {
		return false, shortD(v) + " is neither the parent's block nor a copy of it"
	}
	for _, st := range storesDirect(a) {
		if ld, isLd := st.Val.(*ssa.UnOp); isLd && ld.Op == token.MUL && isSrc(ld.X) {
			return true, ""
		}
	}
	// field by field: every field of the struct from the same field of the source
	stt, isS := deref(a.Type()).Underlying().(*types.Struct)
	if !isS {
		return false, "not a struct copy"
	}
	f := litFields(a)
	if len(f) == 0 {
		return false, "the new block is never filled from the parent's block"
	}
	for i := 0; i < stt.NumFields(); i++ {
		fn := stt.Field(i).Name()
		val, set := f[fn]
		if !set {
			return false, "field " + fn + " of the parent's block is not carried over"
		}
		okField := false
		srcField := func(x ssa.Value) bool {
			ld, isLd := x.(*ssa.UnOp)
			if !isLd || ld.Op != token.MUL {
				return false
			}
			fa, isFA := ld.X.(*ssa.FieldAddr)
			return isFA && isSrc(fa.X) && fieldName(fa) == fn
		}
		if srcField(val) {
			okField = true
		} else if c, isC := val.(*ssa.Call); isC {
			if cal := c.Call.StaticCallee(); cal != nil && cal.Name() == "Clone" && len(c.Call.Args) == 1 && srcField(c.Call.Args[0]) {
				okField = true
			}
		}
		if !okField {
			return false, "field " + fn + " is " + shortD(val) + ", not the parent's block's " + fn
		}
	}
	return true, ""
}

func ruleDeriveSame(p *Prog, r *Reporter) {
	globalP = p
	// the appending method: signs a link payload and has a token parameter
	var app *ssa.Function
	for _, fn := range p.funcsIn("biscuit") {
		if tokenParam(fn) == nil {
			continue
		}
		for _, c := range callsIn(fn) {
			if isCallTo(c.Common(), "crypto/ed25519.Sign") && p.payloadOf(c.Common().Args[1]).shape == "link" {
				app = fn
			}
		}
	}
	if app == nil {
		r.Bad("?", "biscuit", "appending method", "no method of a token signs a link payload")
		return
	}
	name := p.FuncName(app)
	tok := tokenParam(app)
	T := tok.Name()
	var lit *ssa.Alloc
	for _, a := range allocsOf(app, "biscuit", "Biscuit") {
		lit = a
	}
	if lit == nil {
		r.Bad(p.Pos(app.Pos()), name, "result", "no Biscuit literal")
		return
	}
	f := litFields(lit)
	pos := p.instrPos(lit)
	ok, why := blockCopy(p, f["authority"], func(x ssa.Value) bool { return p.D(x) == T+".authority" })
	r.Check(ok, pos, name, "authority", "the parent's authority block, completely", "the derived token's authority block is not a complete copy of the parent's: "+why+" (content signed in the envelope is missing from the token that is evaluated)")
	// blocks
	okBlocks, okLast := false, false
	whyB := "blocks are not a full element-wise copy of the parent's blocks"
	if mk, isMk := f["blocks"].(*ssa.MakeSlice); isMk && p.D(mk.Len) == "(len("+T+".blocks)+1:int)" {
		for _, rl := range rangeLoops(app) {
			if p.D(rl.seq) != T+".blocks" {
				continue
			}
			isElem := func(x ssa.Value) bool { return rl.isElem(x) }
			for b := range rl.body {
				for _, in := range b.Instrs {
					st, isSt := in.(*ssa.Store)
					if !isSt {
						continue
					}
					if ia, isIA := st.Addr.(*ssa.IndexAddr); isIA && ia.X == ssa.Value(mk) && ia.Index == ssa.Value(rl.incr) {
						if c, w := blockCopy(p, st.Val, isElem); c {
							okBlocks = true
						} else if w != "" {
							// blocks[i] = new(Block); *blocks[i] = *old
							if al, isAl := st.Val.(*ssa.Alloc); !isAl || len(litFields(al)) > 0 {
								whyB = w
							}
						}
					}
					if ld, isLd := st.Val.(*ssa.UnOp); isLd && ld.Op == token.MUL && rl.isElem(ld.X) {
						if dl, isDl := st.Addr.(*ssa.UnOp); isDl {
							if ia, isIA := dl.X.(*ssa.IndexAddr); isIA && ia.X == ssa.Value(mk) && ia.Index == ssa.Value(rl.incr) {
								okBlocks = true
							}
						}
					}
				}
			}
		}
		for _, st := range storesIntoSlice(app, mk) {
			if ia := st.Addr.(*ssa.IndexAddr); p.D(ia.Index) == "len("+T+".blocks)" {
				if _, isP := st.Val.(*ssa.Parameter); isP {
					okLast = true
				}
			}
		}
	}
	r.Check(okBlocks, pos, name, "blocks", "every parent block completely copied at the same index", whyB)
	r.Check(okLast, pos, name, "appended block", "the block parameter is stored after the parent's blocks", "the appended block is not stored at index len(parent blocks) of the new token's blocks")
}

func storesIntoSlice(fn *ssa.Function, mk *ssa.MakeSlice) []*ssa.Store {
	var out []*ssa.Store
	for _, ref := range *mk.Referrers() {
		if ia, ok := ref.(*ssa.IndexAddr); ok && ia.X == ssa.Value(mk) {
			for _, rr := range *ia.Referrers() {
				if st, ok := rr.(*ssa.Store); ok && st.Addr == ssa.Value(ia) {
					out = append(out, st)
				}
			}
		}
	}
	return out
}
