// bvcheck: repository-specific static analyser for biscuit-go (see /verif/DESIGN.md).
package main

import (
	"encoding/json"
	"flag"
	"fmt"
	"os"
	"path/filepath"
	"runtime/debug"
	"sort"
	"strconv"
	"strings"
	"time"

	"golang.org/x/tools/go/ssa"
)

var (
	flagProp     = flag.String("property", "", "property id (C01..C20)")
	flagTier     = flag.String("tier", "quick", "quick | thorough")
	flagRepo     = flag.String("repo", "/repo", "repository root to analyse")
	flagVerif    = flag.String("verif", "", "verification root (default: parent of the executable's directory, else /verif)")
	flagReplay   = flag.String("replay", "", "replay artefact to re-evaluate")
	flagList     = flag.Bool("list", false, "list rules and properties")
	flagDump     = flag.String("dump", "", "debug: dump SSA of functions whose name contains this string")
	flagRules    = flag.String("rules", "", "debug: run only these comma separated rules and print all obligations")
	flagArch     = flag.String("arch", "", "GOARCH to analyse under (default: host)")
	flagNoEvid   = flag.Bool("no-evidence", false, "do not write evidence/replay files (used for scratch-copy variants)")
	flagVerbose  = flag.Bool("v", false, "print every obligation")
	flagJSON     = flag.Bool("json", false, "with -rules: print obligations as JSON")
	flagManifest = flag.Bool("manifest", false, "print MANIFEST.json generated from the property table")
	flagKnownFn  = flag.Bool("knownfuncs", false, "print the reference function table (knownfuncs.go) for the tree at -repo")
	flagView     = flag.String("view", "", "debug: write the helper-inlined view of -repo to this directory and stop")
)

var ruleTable = map[string]*Rule{}

func register(rs ...*Rule) {
	for _, r := range rs {
		if ruleTable[r.ID] != nil {
			panic("duplicate rule " + r.ID)
		}
		ruleTable[r.ID] = r
	}
}

func verifRoot() string {
	if *flagVerif != "" {
		return *flagVerif
	}
	if exe, err := os.Executable(); err == nil {
		d := filepath.Dir(filepath.Dir(exe))
		if _, err := os.Stat(filepath.Join(d, "properties.jsonl")); err == nil {
			return d
		}
	}
	return "/verif"
}

func main() {
	flag.Parse()
	switch {
	case *flagManifest:
		printManifest()
	case *flagKnownFn:
		if err := printKnownFuncs(*flagRepo); err != nil {
			fmt.Fprintln(os.Stderr, err)
			os.Exit(2)
		}
	case *flagView != "":
		dir, names, err := normalizedView(*flagRepo)
		if err != nil {
			fmt.Fprintln(os.Stderr, err)
			os.Exit(2)
		}
		fmt.Println("inlined:", names)
		os.RemoveAll(*flagView)
		if err := os.Rename(dir, *flagView); err != nil {
			fmt.Fprintln(os.Stderr, err, "(view left in", dir+")")
			os.Exit(2)
		}
	case *flagList:
		listRules()
	case *flagDump != "":
		dump()
	case *flagRules != "":
		os.Exit(debugRules())
	case *flagReplay != "":
		os.Exit(replay(*flagReplay))
	case *flagProp != "":
		os.Exit(runProperty(*flagProp, *flagTier))
	default:
		flag.Usage()
		os.Exit(2)
	}
}

func listRules() {
	var ids []string
	for id := range ruleTable {
		ids = append(ids, id)
	}
	sort.Strings(ids)
	for _, id := range ids {
		var props []string
		for _, pr := range propertyOrder {
			for _, r := range properties[pr].Rules {
				if r == id {
					props = append(props, pr)
				}
			}
		}
		fmt.Printf("%-16s %-28s %s\n", id, strings.Join(props, ","), ruleTable[id].Doc)
	}
}

func dump() {
	p, err := Load(*flagRepo, *flagArch)
	if err != nil {
		fmt.Fprintln(os.Stderr, err)
		os.Exit(2)
	}
	for _, f := range p.Funcs {
		if !strings.Contains(p.FuncName(f), *flagDump) {
			continue
		}
		fmt.Printf("=== %s\n", p.FuncName(f))
		for _, b := range f.Blocks {
			fmt.Printf(" b%d (%s) preds=%v succs=%v\n", b.Index, b.Comment, idxs(b.Preds), idxs(b.Succs))
			for _, in := range b.Instrs {
				if v, ok := in.(ssa.Value); ok {
					fmt.Printf("   %-6s = %-40s   ‖ %s\n", v.Name(), in.String(), p.D(v))
				} else {
					fmt.Printf("   %-6s   %s\n", "", in.String())
				}
			}
		}
	}
}

func idxs(bs []*ssa.BasicBlock) []int {
	var o []int
	for _, b := range bs {
		o = append(o, b.Index)
	}
	return o
}

// runRule executes one rule with panic containment and the vacuity floor.
func runRule(p *Prog, rl *Rule, config string) (obs []*Oblig, notes []string) {
	r := &Reporter{rule: rl.ID, config: config}
	func() {
		defer func() {
			if e := recover(); e != nil {
				r.Dunno("?", "checker", "panic", fmt.Sprintf("checker panic while running %s: %v\n%s", rl.ID, e, oneLine(string(debug.Stack()))))
			}
		}()
		rl.Run(p, r)
	}()
	min := rl.Min
	if min < 1 {
		min = 1
	}
	if len(r.obs) < min {
		r.Dunno("?", "checker", "vacuous", fmt.Sprintf("rule %s examined %d instance(s), fewer than the %d it must find: its anchor is missing or was rewritten beyond the enumerated idioms", rl.ID, len(r.obs), min))
	}
	return r.obs, r.notes
}

func debugRules() int {
	p, err := Load(*flagRepo, *flagArch)
	if err != nil {
		fmt.Fprintln(os.Stderr, err)
		return 2
	}
	bad := 0
	var all []*Oblig
	for _, id := range strings.Split(*flagRules, ",") {
		rl := ruleTable[id]
		if rl == nil {
			fmt.Fprintf(os.Stderr, "unknown rule %s\n", id)
			return 2
		}
		obs, notes := runRule(p, rl, p.Arch)
		all = append(all, obs...)
		if *flagJSON {
			continue
		}
		for _, o := range obs {
			if o.Status != Discharged {
				bad++
			}
			if o.Status != Discharged || *flagVerbose {
				fmt.Println(summarise(o))
			}
		}
		for _, n := range notes {
			fmt.Println("note:", n)
		}
		fmt.Printf("%s: %d obligations\n", id, len(obs))
	}
	if *flagJSON {
		twoViewProps(all)
		b, _ := json.Marshal(all)
		fmt.Println(string(b))
		for _, o := range all {
			if o.Status != Discharged {
				bad++
			}
		}
	}
	if bad > 0 {
		return 1
	}
	return 0
}

// twoViewProps fills Oblig.Props for the open obligations: the properties whose check would report them, i.e.
// those whose rules are not all discharged on the helper-inlined view either (what runProperty does per property).
func twoViewProps(all []*Oblig) {
	known, _ := loadKnown(filepath.Join(verifRoot(), "known-findings.json"))
	isKnown := func(o *Oblig) bool {
		for _, k := range known {
			if k.Status == "known" && k.Key == o.Key {
				return true
			}
		}
		return false
	}
	rulesRun := map[string]bool{}
	open := false
	for _, o := range all {
		rulesRun[o.Rule] = true
		if o.Status != Discharged && !isKnown(o) {
			open = true
		}
	}
	propsOf := func(rule string) []string {
		var out []string
		for id, pr := range properties {
			for _, r := range pr.Rules {
				if r == rule {
					out = append(out, id)
				}
			}
		}
		sort.Strings(out)
		return out
	}
	cleanOnB := map[string]bool{}
	if open && os.Getenv("BVCHECK_NO_INLINE") == "" {
		if dirB, inlined, err := normalizedView(*flagRepo); err == nil && len(inlined) > 0 {
			if pB, err := Load(dirB, *flagArch); err == nil {
				badRule := map[string]bool{}
				for r := range rulesRun {
					obs, _ := runRule(pB, ruleTable[r], pB.Arch)
					for _, o := range obs {
						if o.Status != Discharged && !isKnown(o) {
							badRule[r] = true
						}
					}
				}
				for id, pr := range properties {
					ok := true
					for _, r := range pr.Rules {
						if !rulesRun[r] || badRule[r] {
							ok = false
						}
					}
					cleanOnB[id] = ok
				}
			}
			os.RemoveAll(dirB)
		} else if dirB != "" {
			os.RemoveAll(dirB)
		}
	}
	for _, o := range all {
		if o.Status == Discharged {
			continue
		}
		o.Props = []string{}
		o.TwoView = true
		for _, id := range propsOf(o.Rule) {
			if !cleanOnB[id] {
				o.Props = append(o.Props, id)
			}
		}
	}
}

type replayArtefact struct {
	Property string `json:"property"`
	Oblig    *Oblig `json:"obligation"`
	Repo     string `json:"repo"`
	Arch     string `json:"arch"`
	How      string `json:"how_to_replay"`
}

func replay(path string) int {
	b, err := os.ReadFile(path)
	if err != nil {
		fmt.Fprintln(os.Stderr, err)
		return 2
	}
	var ra replayArtefact
	if err := json.Unmarshal(b, &ra); err != nil || ra.Oblig == nil {
		fmt.Fprintln(os.Stderr, "bad replay artefact:", err)
		return 2
	}
	rl := ruleTable[ra.Oblig.Rule]
	if rl == nil {
		fmt.Fprintln(os.Stderr, "unknown rule", ra.Oblig.Rule)
		return 2
	}
	p, err := Load(*flagRepo, ra.Arch)
	if err != nil {
		fmt.Printf("VIOLATION property=%s replay=%s\n", ra.Property, path)
		fmt.Println(err)
		return 1
	}
	obs, _ := runRule(p, rl, p.Arch)
	for _, o := range obs {
		if o.Key == ra.Oblig.Key && o.Status != Discharged {
			fmt.Println(summarise(o))
			fmt.Printf("VIOLATION property=%s replay=%s\n", ra.Property, path)
			return 1
		}
	}
	fmt.Printf("obligation %s is discharged on the current tree\n", ra.Oblig.Key)
	return 0
}

func countUnlisted(known []KnownFinding, id string, obs []*Oblig) int {
	n := 0
	for _, o := range obs {
		if o.Status != Discharged && matchKnown(known, id, o) == nil {
			n++
		}
	}
	return n
}

func runProperty(id, tier string) int {
	start := time.Now()
	prop := properties[id]
	root := verifRoot()
	if prop == nil {
		fmt.Fprintf(os.Stderr, "unknown or unclaimed property %s\n", id)
		return 2
	}
	seed := 0
	if s := os.Getenv("VERIF_SEED"); s != "" {
		seed, _ = strconv.Atoi(s)
	}
	evPath := filepath.Join(root, "evidence", id+".json")
	replayDir := filepath.Join(root, "evidence", "replay")
	known, err := loadKnown(filepath.Join(root, "known-findings.json"))
	if err != nil {
		fmt.Fprintln(os.Stderr, "known-findings.json:", err)
		return 2
	}

	archs := []string{*flagArch}
	if tier == "thorough" && *flagArch == "" {
		archs = []string{"amd64", "386"}
	}
	var all []*Oblig
	var notes []string
	var summaries []ruleSummary
	var loadErr error
	funcs, cgNodes, cgEdges := 0, 0, 0
	var pkgNames []string
	configs := []string{}
	evalOn := func(repo string) {
		all, notes, summaries, loadErr = nil, nil, nil, nil
		pkgNames, configs = nil, []string{}
		for ai, arch := range archs {
			p, err := Load(repo, arch)
			if err != nil {
				loadErr = err
				break
			}
			cfgName := arch
			if cfgName == "" {
				cfgName = "host"
			}
			configs = append(configs, "linux/"+cfgName+" tags=verif")
			if ai == 0 {
				funcs = len(p.Funcs)
				for sn, pk := range p.Pkgs {
					pkgNames = append(pkgNames, fmt.Sprintf("%s (%d files)", sn, len(pk.CompiledGoFiles)))
				}
				sort.Strings(pkgNames)
			}
			for _, rid := range prop.Rules {
				rl := ruleTable[rid]
				if rl == nil {
					all = append(all, &Oblig{Rule: rid, Key: rid + "/missing", Status: Undecided, Why: "rule not implemented"})
					continue
				}
				obs, ns := runRule(p, rl, cfgName)
				if ai > 0 {
					// second configuration: keep only obligations that differ from the first (by key+status)
					have := map[string]Status{}
					for _, o := range all {
						have[o.Key] = o.Status
					}
					for _, o := range obs {
						if st, ok := have[o.Key]; !ok || st != o.Status {
							o.Key = o.Key + "@" + cfgName
							all = append(all, o)
						}
					}
					continue
				}
				all = append(all, obs...)
				for _, n := range ns {
					notes = append(notes, rid+": "+n)
				}
				s := ruleSummary{ID: rid, Doc: rl.Doc, Instances: len(obs), Min: rl.Min}
				for _, o := range obs {
					switch o.Status {
					case Violated:
						s.Violated++
					case Undecided:
						s.Undecided++
					}
				}
				summaries = append(summaries, s)
			}
			if ai == 0 {
				cg := p.CG()
				cgNodes, cgEdges = cg.nodes, cg.edges
			}
		}
	}
	evalOn(*flagRepo)
	// Second view. Obligations left open on the tree as written may only be open because code was moved into
	// helper functions the rules do not follow. Inlining those helpers back preserves behaviour, so a tree whose
	// helper-inlined view discharges every obligation satisfies the same clauses.
	view := "as written"
	if loadErr == nil && countUnlisted(known, id, all) > 0 && os.Getenv("BVCHECK_NO_INLINE") == "" {
		if dirB, inlined, err := normalizedView(*flagRepo); err == nil && len(inlined) > 0 {
			allA, notesA, sumA, pkA, cfA := all, notes, summaries, pkgNames, configs
			fA, nA, eA := funcs, cgNodes, cgEdges
			evalOn(dirB)
			if loadErr == nil && countUnlisted(known, id, all) == 0 {
				view = "helper-inlined"
				for _, o := range all {
					o.Pos = "inlined-view:" + o.Pos
				}
				notes = append(notes, fmt.Sprintf("view: %d obligation(s) open on the tree as written; all discharged after inlining the helper functions %s (source-level inlining with a copy of golang.org/x/tools/internal/refactor/inline v0.29.0; positions refer to the inlined source)", countUnlisted(known, id, allA), strings.Join(inlined, ", ")))
				fmt.Printf("note: %s holds on the helper-inlined view of the tree (inlined: %s)\n", id, strings.Join(inlined, ", "))
			} else {
				all, notes, summaries, pkgNames, configs, loadErr = allA, notesA, sumA, pkA, cfA, nil
				funcs, cgNodes, cgEdges = fA, nA, eA
			}
			os.RemoveAll(dirB)
		} else if dirB != "" {
			os.RemoveAll(dirB)
		}
	}
	sortObligs(all)

	exit := 0
	violations := 0
	discharged := 0
	var samples []any
	var bad []*Oblig
	if loadErr != nil {
		o := &Oblig{Rule: "LOAD", Key: "LOAD/" + id, Pos: "?", Func: "loader", Construct: "packages.Load", Status: Undecided, Why: oneLine(loadErr.Error())}
		all = append(all, o)
	}
	os.RemoveAll(filepath.Join(replayDir, id))
	nReplay := 0
	knownPrinted := map[string]bool{}
	for _, o := range all {
		if o.Status == Discharged {
			discharged++
			continue
		}
		if k := matchKnown(known, id, o); k != nil {
			if !knownPrinted[k.Key] {
				fmt.Printf("KNOWN-FINDING: property=%s %s [%s at %s]\n", id, k.What, o.Key, o.Pos)
				knownPrinted[k.Key] = true
			}
			continue
		}
		violations++
		bad = append(bad, o)
		nReplay++
		rp := filepath.Join(replayDir, id, fmt.Sprintf("%s-%d.json", id, nReplay))
		if !*flagNoEvid {
			writeJSON(rp, replayArtefact{Property: id, Oblig: o, Repo: *flagRepo, Arch: o.Config,
				How: "bvcheck -replay " + rp + " re-runs rule " + o.Rule + " on the current tree and reports this construct"})
		}
		fmt.Println(summarise(o))
		fmt.Printf("VIOLATION property=%s replay=%s\n", id, rp)
		exit = 1
	}
	// samples: violated first, then a spread of discharged obligations (one per rule, then more)
	for _, o := range bad {
		if len(samples) < 10 {
			samples = append(samples, o)
		}
	}
	perRule := map[string]int{}
	for _, o := range all {
		if o.Status == Discharged && perRule[o.Rule] < 2 && len(samples) < 40 {
			perRule[o.Rule]++
			samples = append(samples, o)
		}
	}
	distinct := map[string]bool{}
	for _, o := range all {
		distinct[o.Key] = true
	}
	ev := evidence{
		PropertyID: id, Tier: tier, Seed: seed, Level: "other",
		Coverage: map[string]any{
			"explanation":         prop.Explanation,
			"obligations":         len(all),
			"discharged":          discharged,
			"evaluations":         len(all),
			"distinct_nontrivial": len(distinct),
			"rule":                "Each rule enumerates its instances from the type-checked, SSA-lowered source of /repo (call sites of a resolved callee, composite literals of a type, stores to a field, loops over a field, switch clauses, struct tags ...). One obligation per (rule, function, construct, ordinal); a construct is non-trivial because it is an anchor the property's argument rests on; keys contain no line numbers, so distinct = distinct keys.",
			"samples":             samples,
			"checker_cmd":         fmt.Sprintf("%s -property %s -tier %s", filepath.Join(root, "bin", "bvcheck"), id, tier),
			"trusted_base":        trustedBase,
			"exhaustive":          loadErr == nil,
			"packages":            pkgNames,
			"configurations":      configs,
			"functions_analysed":  funcs,
			"callgraph_nodes":     cgNodes,
			"callgraph_edges":     cgEdges,
			"rules":               summaries,
			"decides":             prop.Decides,
			"does_not_decide":     prop.NotDecided,
			"notes":               notes,
			"view":                view,
			"known_findings_file": filepath.Join(root, "known-findings.json"),
		},
		Assumptions: trustedBase,
		Violations:  violations,
	}
	if tier == "thorough" && loadErr == nil && !*flagNoEvid {
		sv := selfValidate(id, root)
		ev.Coverage["seeded_faults"] = sv
		if sv.Broken > 0 {
			// the corpus is self-validation of the checker, reported but never a verdict on /repo
			fmt.Printf("note: %d seeded-fault variant(s) for %s were not detected (see evidence)\n", sv.Broken, id)
		}
	}
	ev.WallS = time.Since(start).Seconds()
	if !*flagNoEvid {
		if err := writeJSON(evPath, ev); err != nil {
			fmt.Fprintln(os.Stderr, "cannot write evidence:", err)
			return 2
		}
	}
	fmt.Printf("%s tier=%s: %d obligations over %d rules, %d discharged, %d unlisted violation(s), %.1fs\n", id, tier, len(all), len(prop.Rules), discharged, violations, ev.WallS)
	return exit
}
