package main

import (
	"go/types"
	"sort"

	"golang.org/x/tools/go/ssa"
)

// callGraph is a static + CHA (restricted to repository implementors) call graph
// over functions that have bodies, including synthetic wrappers. Closures are
// edges from their creator; dynamic calls resolve by signature to every
// address-taken repository function.
type callGraph struct {
	p         *Prog
	out       map[*ssa.Function][]*ssa.Function
	addrTaken []*ssa.Function
	repoTypes []types.Type
	nodes     int
	edges     int
}

func (p *Prog) CG() *callGraph {
	if p.cg != nil {
		return p.cg
	}
	cg := &callGraph{p: p, out: map[*ssa.Function][]*ssa.Function{}}
	for _, sp := range p.SSAPkg {
		for _, m := range sp.Members {
			if t, ok := m.(*ssa.Type); ok {
				cg.repoTypes = append(cg.repoTypes, t.Type(), types.NewPointer(t.Type()))
			}
		}
	}
	sort.Slice(cg.repoTypes, func(i, j int) bool { return cg.repoTypes[i].String() < cg.repoTypes[j].String() })
	taken := map[*ssa.Function]bool{}
	for _, f := range p.Funcs {
		for _, b := range f.Blocks {
			for _, in := range b.Instrs {
				var callee ssa.Value
				if c, ok := in.(ssa.CallInstruction); ok && !c.Common().IsInvoke() {
					callee = c.Common().Value
				}
				for _, op := range in.Operands(nil) {
					if fn, ok := (*op).(*ssa.Function); ok && (*op) != callee {
						taken[fn] = true
					}
					if mc, ok := (*op).(*ssa.MakeClosure); ok {
						_ = mc
					}
				}
				if mc, ok := in.(*ssa.MakeClosure); ok {
					taken[mc.Fn.(*ssa.Function)] = true
				}
			}
		}
	}
	for f := range taken {
		cg.addrTaken = append(cg.addrTaken, f)
	}
	sort.Slice(cg.addrTaken, func(i, j int) bool { return p.FuncName(cg.addrTaken[i]) < p.FuncName(cg.addrTaken[j]) })
	p.cg = cg
	return cg
}

// Callees resolves a call site to the functions it may invoke (repository
// functions, synthetic wrappers, and external static callees without bodies).
func (cg *callGraph) Callees(c ssa.CallInstruction) []*ssa.Function {
	cc := c.Common()
	if f := cc.StaticCallee(); f != nil {
		return []*ssa.Function{f}
	}
	var out []*ssa.Function
	if cc.IsInvoke() {
		iface, _ := cc.Value.Type().Underlying().(*types.Interface)
		if iface == nil {
			return nil
		}
		for _, t := range cg.repoTypes {
			if _, isIface := t.Underlying().(*types.Interface); isIface {
				continue
			}
			if !types.Implements(t, iface) {
				continue
			}
			// skip pointer type when the value type already implements (same method)
			ms := cg.p.SSA.MethodSets.MethodSet(t)
			sel := ms.Lookup(cc.Method.Pkg(), cc.Method.Name())
			if sel == nil {
				continue
			}
			if fn := cg.p.SSA.MethodValue(sel); fn != nil {
				out = append(out, fn)
			}
		}
		return dedupFuncs(out)
	}
	if _, ok := cc.Value.(*ssa.Builtin); ok {
		return nil
	}
	// dynamic call through a function value
	if mc, ok := cc.Value.(*ssa.MakeClosure); ok {
		return []*ssa.Function{mc.Fn.(*ssa.Function)}
	}
	sig, _ := cc.Value.Type().Underlying().(*types.Signature)
	for _, f := range cg.addrTaken {
		if sig != nil && types.Identical(stripRecv(f.Signature), sig) {
			out = append(out, f)
		}
	}
	return out
}

func stripRecv(s *types.Signature) *types.Signature {
	if s.Recv() == nil {
		return s
	}
	return types.NewSignatureType(nil, nil, nil, s.Params(), s.Results(), s.Variadic())
}

func dedupFuncs(in []*ssa.Function) []*ssa.Function {
	seen := map[*ssa.Function]bool{}
	var out []*ssa.Function
	for _, f := range in {
		if !seen[f] {
			seen[f] = true
			out = append(out, f)
		}
	}
	return out
}

func (cg *callGraph) succs(f *ssa.Function) []*ssa.Function {
	if s, ok := cg.out[f]; ok {
		return s
	}
	var out []*ssa.Function
	for _, b := range f.Blocks {
		for _, in := range b.Instrs {
			if c, ok := in.(ssa.CallInstruction); ok {
				out = append(out, cg.Callees(c)...)
			}
			if mc, ok := in.(*ssa.MakeClosure); ok {
				out = append(out, mc.Fn.(*ssa.Function))
			}
		}
	}
	out = dedupFuncs(out)
	cg.out[f] = out
	cg.nodes++
	cg.edges += len(out)
	return out
}

// Reach returns every function with a body reachable from the entries.
func (cg *callGraph) Reach(entries ...*ssa.Function) map[*ssa.Function]bool {
	seen := map[*ssa.Function]bool{}
	var work []*ssa.Function
	for _, e := range entries {
		if e != nil && !seen[e] {
			seen[e] = true
			work = append(work, e)
		}
	}
	for len(work) > 0 {
		f := work[len(work)-1]
		work = work[:len(work)-1]
		if f.Blocks == nil {
			continue
		}
		for _, s := range cg.succs(f) {
			if !seen[s] {
				seen[s] = true
				work = append(work, s)
			}
		}
	}
	return seen
}

// isRepoFunc: f (or the function it is nested in / wraps) belongs to a repository package.
func (p *Prog) isRepoFunc(f *ssa.Function) bool {
	return p.pkgShort(f) != "" || (f.Synthetic != "" && f.Object() != nil && f.Object().Pkg() != nil && shortNames[f.Object().Pkg().Path()] != "")
}
