package main

import (
	"fmt"
	"go/token"
	"go/types"
	"strings"

	"golang.org/x/tools/go/ssa"
)

func init() {
	register(
		&Rule{ID: "LM-FIELDS", Doc: "every field of datalog.runLimits is read by World.Run and feeds a bound (loop condition, fact-count comparison, timeout constructor)", Run: ruleLMFields, Min: 3},
		&Rule{ID: "LM-SENTINEL", Doc: "each result produced by World.Run is the right sentinel for the branch it is produced on; nil only at the fixpoint", Run: ruleLMSentinel, Min: 5},
		&Rule{ID: "LM-CHAN", Doc: "no send in a library goroutine can block forever once the spawner/consumer has returned", Run: ruleLMChan, Min: 2},
		&Rule{ID: "LM-OPTS", Doc: "every variadic option parameter is applied in full or forwarded", Run: ruleLMOpts, Min: 5},
		&Rule{ID: "LM-CLONE", Doc: "every World built from another World carries its runLimits; NewWorld starts from the defaults", Run: ruleLMClone, Min: 1},
		&Rule{ID: "LM-ERR", Doc: "every World.Run error in package biscuit is tested and returned", Run: ruleLMErr, Min: 2},
	)
}

// withClosures returns fn and all function literals nested in it.
func withClosures(fn *ssa.Function) []*ssa.Function {
	out := []*ssa.Function{fn}
	for _, a := range fn.AnonFuncs {
		out = append(out, withClosures(a)...)
	}
	return out
}

func ruleLMFields(p *Prog, r *Reporter) {
	globalP = p
	run := p.Func("datalog", "World", "Run")
	rl := p.NamedType("datalog", "runLimits")
	if run == nil || rl == nil {
		r.Dunno("?", "datalog.World.Run", "anchor", "World.Run or runLimits not found")
		return
	}
	st, _ := rl.Underlying().(*types.Struct)
	for i := 0; i < st.NumFields(); i++ {
		fld := st.Field(i)
		construct := "runLimits." + fld.Name()
		found := false
		okUse := false
		why := "never read in World.Run"
		pos := p.Pos(run.Pos())
		for _, fn := range withClosures(run) {
			for _, b := range fn.Blocks {
				for _, in := range b.Instrs {
					u, ok := in.(*ssa.UnOp)
					if !ok || u.Op != token.MUL {
						continue
					}
					fa, ok := u.X.(*ssa.FieldAddr)
					if !ok || fieldName(fa) != fld.Name() || !types.Identical(deref(fa.X.Type()), rl) {
						continue
					}
					found = true
					pos = p.instrPos(u)
					for _, ref := range *u.Referrers() {
						switch x := ref.(type) {
						case *ssa.BinOp:
							switch x.Op {
							case token.LSS, token.LEQ, token.GTR, token.GEQ:
								for _, rr := range *x.Referrers() {
									if _, isIf := rr.(*ssa.If); isIf {
										okUse = true
									}
								}
							}
						case *ssa.Call:
							if isCallTo(&x.Call, "context.WithTimeout", "context.WithDeadline", "time.After", "time.NewTimer", "time.AfterFunc") {
								okUse = true
							}
						}
					}
					if !okUse {
						why = "read but feeds neither a branch comparison nor a timeout constructor"
					}
				}
			}
		}
		_ = found
		r.Check(okUse, pos, p.FuncName(run), construct, "read in Run and bounds the evaluation", why)
	}
}

// chanOrigins resolves a channel-typed value to the make(chan) instructions it may denote.
func (p *Prog) chanOrigins(v ssa.Value, depth int) []*ssa.MakeChan {
	if depth > 8 {
		return nil
	}
	v = unwrap(v)
	switch x := v.(type) {
	case *ssa.MakeChan:
		return []*ssa.MakeChan{x}
	case *ssa.UnOp:
		if x.Op != token.MUL {
			return nil
		}
		switch a := x.X.(type) {
		case *ssa.Alloc:
			var out []*ssa.MakeChan
			for _, st := range storesInto(a) {
				out = append(out, p.chanOrigins(st.Val, depth+1)...)
			}
			return out
		case *ssa.FreeVar:
			return p.freeVarOrigins(a, depth)
		}
	case *ssa.Parameter:
		fn := x.Parent()
		idx := -1
		for i, pa := range fn.Params {
			if pa == x {
				idx = i
			}
		}
		var out []*ssa.MakeChan
		for _, caller := range p.Funcs {
			for _, c := range callsIn(caller) {
				cc := c.Common()
				if cc.StaticCallee() == fn || (cc.Value != nil && closureOf(cc.Value) == fn) {
					args := cc.Args
					if idx < len(args) {
						out = append(out, p.chanOrigins(args[idx], depth+1)...)
					}
				}
			}
		}
		return out
	case *ssa.Phi:
		var out []*ssa.MakeChan
		for _, e := range x.Edges {
			out = append(out, p.chanOrigins(e, depth+1)...)
		}
		return out
	}
	return nil
}

func closureOf(v ssa.Value) *ssa.Function {
	switch x := v.(type) {
	case *ssa.MakeClosure:
		return x.Fn.(*ssa.Function)
	case *ssa.Function:
		return x
	}
	return nil
}

func (p *Prog) freeVarOrigins(fv *ssa.FreeVar, depth int) []*ssa.MakeChan {
	fn := fv.Parent()
	idx := -1
	for i, f := range fn.FreeVars {
		if f == fv {
			idx = i
		}
	}
	parent := fn.Parent()
	if parent == nil || idx < 0 {
		return nil
	}
	var out []*ssa.MakeChan
	for _, b := range parent.Blocks {
		for _, in := range b.Instrs {
			mc, ok := in.(*ssa.MakeClosure)
			if !ok || mc.Fn != ssa.Value(fn) || idx >= len(mc.Bindings) {
				continue
			}
			bind := mc.Bindings[idx]
			switch a := bind.(type) {
			case *ssa.Alloc:
				for _, st := range storesInto(a) {
					out = append(out, p.chanOrigins(st.Val, depth+1)...)
				}
			case *ssa.FreeVar:
				out = append(out, p.freeVarOrigins(a, depth+1)...)
			}
		}
	}
	return out
}

// closedOnAllExits: the function owning mk closes it through a defer that runs on every exit,
// or (for context channels) see cancelOnAllExits.
func closedOnAllExits(mk *ssa.MakeChan) bool {
	fn := mk.Parent()
	for _, b := range fn.Blocks {
		for _, in := range b.Instrs {
			d, ok := in.(*ssa.Defer)
			if !ok {
				continue
			}
			bi, ok := d.Call.Value.(*ssa.Builtin)
			if !ok {
				// defer func() { close(stop); ... }() or defer helper(stop, ...): the deferred function
				// closes the channel first thing, on every path
				if !deferredFuncCloses(d, mk) {
					continue
				}
			} else {
				if bi.Name() != "close" || len(d.Call.Args) != 1 {
					continue
				}
				if unwrap(d.Call.Args[0]) != ssa.Value(mk) {
					continue
				}
			}
			// the defer must be registered before any return: its block dominates every returning block
			all := true
			for _, ret := range returnsOf(fn) {
				if rb := ret.Block(); !(b.Dominates(rb) || b == rb) {
					all = false
				}
			}
			if all {
				return true
			}
		}
	}
	return false
}

func ruleLMChan(p *Prog, r *Reporter) {
	globalP = p
	for _, fn := range p.funcsIn("biscuit", "datalog", "parser") {
		for _, b := range fn.Blocks {
			for _, in := range b.Instrs {
				g, ok := in.(*ssa.Go)
				if !ok {
					continue
				}
				body := closureOf(g.Call.Value)
				if body == nil {
					body = g.Call.StaticCallee()
				}
				if body == nil || body.Blocks == nil {
					r.Dunno(p.instrPos(g), p.FuncName(fn), "go statement", "goroutine body cannot be resolved statically")
					continue
				}
				p.checkGoroutineSends(r, fn, g, body)
			}
		}
	}
}

type sendSite struct {
	in    ssa.Instruction // *ssa.Send or *ssa.Select
	ch    ssa.Value
	state int // index in Select.States, -1 for plain send
}

func sendsOf(fn *ssa.Function) []sendSite {
	var out []sendSite
	for _, f := range withClosures(fn) {
		for _, b := range f.Blocks {
			for _, in := range b.Instrs {
				switch x := in.(type) {
				case *ssa.Send:
					out = append(out, sendSite{x, x.Chan, -1})
				case *ssa.Select:
					for i, st := range x.States {
						if st.Dir == types.SendOnly {
							out = append(out, sendSite{x, st.Chan, i})
						}
					}
				}
			}
		}
	}
	return out
}

func (p *Prog) checkGoroutineSends(r *Reporter, spawner *ssa.Function, g *ssa.Go, body *ssa.Function) {
	sends := sendsOf(body)
	name := p.FuncName(body)
	if len(sends) == 0 {
		r.OK(p.instrPos(g), name, "goroutine", "goroutine performs no channel send")
		return
	}
	for _, s := range sends {
		pos := p.instrPos(s.in)
		construct := "send on " + shortD(s.ch)
		origins := p.chanOrigins(s.ch, 0)
		if len(origins) == 0 {
			r.Dunno(pos, name, construct, "cannot resolve the channel to its make(chan) site")
			continue
		}
		// (b) select with an always-eventually-ready alternative
		if sel, ok := s.in.(*ssa.Select); ok {
			if !sel.Blocking {
				r.OK(pos, name, construct, "non-blocking select (has a default case)")
				continue
			}
			alt := false
			why := ""
			for i, st := range sel.States {
				if i == s.state || st.Dir != types.RecvOnly {
					continue
				}
				stops := p.chanOrigins(st.Chan, 0)
				if len(stops) == 0 {
					why = "the alternative receive channel " + shortD(st.Chan) + " cannot be resolved"
					continue
				}
				allClosed := true
				for _, mk := range stops {
					if !closedOnAllExits(mk) {
						allClosed = false
						why = fmt.Sprintf("the stop channel made in %s is not closed by a defer on all of its exits", p.FuncName(mk.Parent()))
					}
				}
				if allClosed {
					alt = true
				}
			}
			if alt {
				r.OK(pos, name, construct, "send is a select case next to a receive from a stop channel that its owner closes (defer) on every exit")
				continue
			}
			if why == "" {
				why = "blocking select without a cancellation alternative"
			}
			r.Bad(pos, name, construct, "the producer can stay blocked for ever: "+why)
			continue
		}
		// (a) capacity covers every send of a path
		okCap := true
		why := ""
		for _, mk := range origins {
			c, isC := constInt(mk.Size)
			if !isC || c < 1 {
				okCap = false
				why = "channel is unbuffered (or of unknown capacity) and the receiver may have returned (timeout / early return): the goroutine blocks on this send for ever"
			}
		}
		if okCap && sendReachableAfter(s, sends) {
			okCap = false
			why = "more than one send may execute on one path but the proof covers a single buffered slot"
		}
		if okCap {
			r.OK(pos, name, construct, "channel has capacity >= 1 and at most one send executes on any path of the goroutine")
		} else {
			r.Bad(pos, name, construct, why)
		}
	}
}

// sendReachableAfter: can another send (or the same one again) on the same channel execute after s?
func sendReachableAfter(s sendSite, all []sendSite) bool {
	blk := s.in.Block()
	idx := instrIndex(s.in)
	after := blockSet{}
	for _, su := range blk.Succs {
		for b := range reachableFrom(su) {
			after[b] = true
		}
	}
	for _, o := range all {
		if globalP.D(o.ch) != globalP.D(s.ch) || o.in.Parent() != s.in.Parent() {
			if o.in.Parent() != s.in.Parent() {
				// sends in nested closures: be conservative
				return true
			}
			continue
		}
		if o.in.Block() == blk && instrIndex(o.in) > idx {
			return true
		}
		if after[o.in.Block()] {
			return true
		}
	}
	return false
}

func ruleLMSentinel(p *Prog, r *Reporter) {
	globalP = p
	run := p.Func("datalog", "World", "Run")
	if run == nil {
		r.Dunno("?", "datalog.World.Run", "anchor", "not found")
		return
	}
	name := p.FuncName(run)
	sentinelOf := func(v ssa.Value) string {
		u, ok := unwrap(v).(*ssa.UnOp)
		if !ok || u.Op != token.MUL {
			return ""
		}
		g, ok := u.X.(*ssa.Global)
		if !ok {
			return ""
		}
		return g.Name()
	}
	seen := map[string]int{}
	// productions inside the worker(s): sends on the result channel
	for _, body := range withClosures(run)[1:] {
		var iterLoop *loop
		var iterCond *ssa.BinOp
		for _, l := range naturalLoops(body) {
			if i := blockIf(l.header); i != nil {
				if c, ok := i.Cond.(*ssa.BinOp); ok && strings.Contains(p.D(c), "runLimits.maxIterations") {
					iterLoop, iterCond = l, c
				}
			}
		}
		for _, s := range sendsOf(body) {
			snd, ok := s.in.(*ssa.Send)
			if !ok {
				continue
			}
			pos := p.instrPos(snd)
			val := snd.X
			gs := guardsOf(snd.Block())
			switch {
			case isNilConst(val):
				// LM-FIXPOINT: nil only when an iteration added nothing
				ok := false
				for _, g := range gs {
					b, isB := g.cond.(*ssa.BinOp)
					if !isB || b.Op != token.EQL || !g.val {
						continue
					}
					if isFactCount(p, b.X) && isFactCount(p, b.Y) && b.X != b.Y && insertBetween(p, b.X, b.Y) {
						ok = true
					}
				}
				within := false
				for _, g := range gs {
					b, isB := g.cond.(*ssa.BinOp)
					if !isB || !strings.Contains(p.D(b), "runLimits.maxFacts") {
						continue
					}
					exceeded := (b.Op == token.GEQ || b.Op == token.GTR) == g.val
					if isFactCount(p, b.Y) {
						exceeded = (b.Op == token.LEQ || b.Op == token.LSS) == g.val
					}
					if !exceeded {
						within = true
					}
				}
				r.Check(within, pos, p.FuncName(body), "send nil within limits", "success is reported only after the fact-count limit was tested and not exceeded", "success (nil) can be reported although the fact count is at or above maxFacts: the limit test does not precede the fixpoint test")
				r.Check(ok, pos, p.FuncName(body), "send nil", "success is reported only when the fact count is unchanged by an iteration (fixpoint)",
					"success (nil) is sent on a path that is not guarded by 'fact count before == fact count after' of one iteration: a truncated evaluation can report success")
				seen["nil"]++
			case sentinelOf(val) == "ErrWorldRunLimitMaxFacts":
				ok := false
				for _, g := range gs {
					b, isB := g.cond.(*ssa.BinOp)
					if !isB {
						continue
					}
					d := p.D(b)
					if strings.Contains(d, "runLimits.maxFacts") && (isFactCount(p, b.X) || isFactCount(p, b.Y)) {
						exceeded := (b.Op == token.GEQ || b.Op == token.GTR) == g.val
						if isFactCount(p, b.Y) {
							exceeded = (b.Op == token.LEQ || b.Op == token.LSS) == g.val
						}
						if exceeded {
							ok = true
						}
					}
				}
				r.Check(ok, pos, p.FuncName(body), "send ErrWorldRunLimitMaxFacts", "sent when the fact count exceeds maxFacts", "ErrWorldRunLimitMaxFacts is sent on a path not guarded by the fact count exceeding maxFacts")
				seen["facts"]++
			case sentinelOf(val) == "ErrWorldRunLimitMaxIterations":
				ok := iterLoop != nil && !iterLoop.body[snd.Block()] && hasGuard(snd.Block(), iterCond, false)
				r.Check(ok, pos, p.FuncName(body), "send ErrWorldRunLimitMaxIterations", "sent only after the iteration loop is exhausted", "ErrWorldRunLimitMaxIterations is not tied to exhaustion of the maxIterations loop")
				seen["iterations"]++
			case sentinelOf(val) == "ErrWorldRunLimitTimeout":
				// the worker may report the deadline itself: only where it has just observed it
				// (the Done() case of a select, or ctx.Err() != nil)
				ok := deadlineObserved(p, snd.Block())
				r.Check(ok, pos, p.FuncName(body), "send ErrWorldRunLimitTimeout", "sent only where the worker has observed the deadline (Done() case or ctx.Err() != nil)", "ErrWorldRunLimitTimeout is sent on a path on which the deadline was not observed")
				seen["timeout-worker"]++
			case sentinelOf(val) != "":
				r.Bad(pos, p.FuncName(body), "send "+sentinelOf(val), "unexpected sentinel produced by the worker")
			default:
				// an error from rule application: must be a non-nil-guarded value
				ok := definitelyNonNilError(val, snd.Block(), 0)
				r.Check(ok, pos, p.FuncName(body), "send error", "an error of rule application is forwarded under err != nil", "a value that may be nil is sent as the result outside the fixpoint branch")
				seen["err"]++
			}
		}
		// the loop that bounds the iterations must contain the fixpoint/limit sends
		if iterLoop == nil {
			r.Bad(p.Pos(body.Pos()), p.FuncName(body), "iteration loop", "no loop bounded by runLimits.maxIterations in the worker")
		}
	}
	// productions in Run itself: returns
	for _, ret := range returnsOf(run) {
		b := ret.Block()
		pos := p.instrPos(ret)
		v := retVal(ret, 0)
		switch {
		case sentinelOf(v) == "ErrWorldRunLimitTimeout":
			// must be on a select case receiving from ctx.Done()/timer
			ok := false
			for _, g := range guardsOf(b) {
				if bo, isB := g.cond.(*ssa.BinOp); isB && g.val && bo.Op == token.EQL {
					if ex, isEx := bo.X.(*ssa.Extract); isEx {
						if sel, isSel := ex.Tuple.(*ssa.Select); isSel {
							if idx, isC := constInt(bo.Y); isC && int(idx) < len(sel.States) {
								d := p.D(sel.States[idx].Chan)
								if strings.Contains(d, ".Done(") || strings.Contains(d, "time.After") || strings.Contains(d, ".C") {
									ok = true
								}
							}
						}
					}
				}
			}
			r.Check(ok, pos, name, "return ErrWorldRunLimitTimeout", "returned on the deadline case of the select", "ErrWorldRunLimitTimeout is returned on a path that is not the deadline case")
			seen["timeout"]++
		case isNilConst(v):
			r.Bad(pos, name, "return nil", "Run returns a constant nil: success not tied to the worker's fixpoint report")
		case sentinelOf(v) != "":
			r.Bad(pos, name, "return "+sentinelOf(v), "unexpected sentinel returned by Run")
		default:
			ok := dependsOn(v, func(x ssa.Value) bool {
				_, isSel := x.(*ssa.Select)
				u, isU := x.(*ssa.UnOp)
				return isSel || (isU && u.Op == token.ARROW)
			})
			r.Check(ok, pos, name, "return received", "returns the worker's result as received", "Run returns a value that is not the worker's result")
			seen["recv"]++
		}
	}
	for _, k := range []string{"nil", "facts", "iterations", "timeout", "recv"} {
		if seen[k] == 0 {
			r.Bad(p.Pos(run.Pos()), name, "production "+k, "World.Run lacks the '"+k+"' result production: a limit is not enforced or not distinguishable")
		}
	}
}

// isFactCount: v is len(*w.facts) for a World receiver (or captured one).
func isFactCount(p *Prog, v ssa.Value) bool {
	d := p.D(v)
	return strings.HasPrefix(d, "len(") && strings.HasSuffix(d, ".facts)")
}

// insertBetween: a call that may add facts (Insert/InsertAll on the fact set) lies between the two counts.
func insertBetween(p *Prog, a, b ssa.Value) bool {
	ia, ok1 := a.(ssa.Instruction)
	ib, ok2 := b.(ssa.Instruction)
	if !ok1 || !ok2 {
		return false
	}
	first, second := ia, ib
	if instrDominates(ib, ia) {
		first, second = ib, ia
	}
	if !instrDominates(first, second) {
		return false
	}
	for _, c := range callsIn(first.Parent()) {
		if isCallTo(c.Common(), "datalog.FactSet.InsertAll", "datalog.FactSet.Insert") {
			if instrDominates(first, c) && instrDominates(c, second) {
				return true
			}
		}
	}
	return false
}

func isOptionType(p *Prog, t types.Type) bool {
	n, ok := t.(*types.Named)
	if !ok || n.Obj().Pkg() == nil || shortNames[n.Obj().Pkg().Path()] == "" {
		return false
	}
	switch n.Underlying().(type) {
	case *types.Signature, *types.Interface:
		return strings.HasSuffix(n.Obj().Name(), "Option") || strings.HasSuffix(n.Obj().Name(), "option")
	}
	return false
}

func ruleLMOpts(p *Prog, r *Reporter) {
	globalP = p
	for _, fn := range p.funcsIn("biscuit", "datalog", "parser") {
		if !fn.Signature.Variadic() || fn.Parent() != nil {
			continue
		}
		last := fn.Params[len(fn.Params)-1]
		sl, ok := last.Type().(*types.Slice)
		if !ok || !isOptionType(p, sl.Elem()) {
			continue
		}
		used, how := p.optsConsumed(fn, last, 0)
		r.Check(used, p.Pos(fn.Pos()), p.FuncName(fn), "options ..."+shortType(sl.Elem()), how,
			"the variadic options are accepted but neither applied in a full-range loop nor forwarded: limits supplied by the caller are silently dropped")
		// an option that wraps sub-options must add them to what the object already has: building a
		// replacement object from its own arguments discards what an earlier use of the same option configured
		for _, cl := range fn.AnonFuncs {
			if len(cl.Params) != 1 {
				continue
			}
			for _, b := range cl.Blocks {
				for _, in := range b.Instrs {
					st, isSt := in.(*ssa.Store)
					if !isSt {
						continue
					}
					fa, isFA := st.Addr.(*ssa.FieldAddr)
					if !isFA || fa.X != ssa.Value(cl.Params[0]) {
						continue
					}
					call, isC := st.Val.(*ssa.Call)
					if !isC || len(call.Call.Args) == 0 {
						continue
					}
					fromOpts := false
					if ld, isLd := call.Call.Args[len(call.Call.Args)-1].(*ssa.UnOp); isLd && ld.Op == token.MUL {
						if _, isFV := ld.X.(*ssa.FreeVar); isFV {
							fromOpts = true
						}
					}
					usesOld := dependsOn(call, func(x ssa.Value) bool {
						f2, ok := x.(*ssa.FieldAddr)
						return ok && f2.X == ssa.Value(cl.Params[0]) && f2.Field == fa.Field
					})
					if fromOpts {
						r.Check(usesOld, p.instrPos(st), p.FuncName(cl), "options are cumulative", "added to the object's existing configuration", "the option replaces "+fieldName(fa)+" by an object built from its own arguments only: when the option is given twice (for instance a longer duration appended to caller-supplied options) every limit set by the first use silently falls back to its default")
					}
				}
			}
		}
		// every call that accepts the same kind of options must receive the caller's options
		// (a path that builds the result without them silently falls back to the defaults)
		for _, c := range callsIn(fn) {
			cc := c.Common()
			sig, isSig := cc.Value.Type().Underlying().(*types.Signature)
			if cc.IsInvoke() || !isSig || !sig.Variadic() || len(cc.Args) == 0 {
				continue
			}
			ps := sig.Params()
			vt, isSl := ps.At(ps.Len() - 1).Type().(*types.Slice)
			if !isSl || !types.Identical(vt.Elem(), sl.Elem()) {
				continue
			}
			arg := cc.Args[len(cc.Args)-1]
			fw := arg == ssa.Value(last) || sliceDependsOn(arg, last)
			callee := "callee"
			if f := cc.StaticCallee(); f != nil {
				callee = calleeName(f)
			}
			r.Check(fw, p.instrPos(c), p.FuncName(fn), "options passed to "+callee, "the caller's options are forwarded", "a call to "+callee+" does not receive the caller's options: on this path the configured limits are replaced by the defaults")
		}
	}
}

// optsConsumed: is the option slice v applied (full range loop calling each element) or forwarded?
func (p *Prog) optsConsumed(fn *ssa.Function, v ssa.Value, depth int) (bool, string) {
	if depth > 3 || v.Referrers() == nil {
		return false, ""
	}
	for _, rl := range rangeLoops(fn) {
		if rl.seq != v {
			continue
		}
		for b := range rl.body {
			for _, in := range b.Instrs {
				c, ok := in.(ssa.CallInstruction)
				if !ok {
					continue
				}
				if rl.isElem(c.Common().Value) {
					return true, "applied: full-range loop calls every option"
				}
			}
		}
	}
	for _, ref := range *v.Referrers() {
		switch x := ref.(type) {
		case ssa.CallInstruction:
			cc := x.Common()
			if len(cc.Args) > 0 && cc.Args[len(cc.Args)-1] == v {
				if sig, ok := cc.Value.Type().Underlying().(*types.Signature); ok && sig.Variadic() {
					callee := "callee"
					if f := cc.StaticCallee(); f != nil {
						callee = calleeName(f)
					}
					return true, "forwarded as opts... to " + callee
				}
			}
		case *ssa.Store:
			// spilled for capture by a closure
			if a, ok := x.Addr.(*ssa.Alloc); ok && x.Val == v {
				for _, aref := range *a.Referrers() {
					if mc, ok := aref.(*ssa.MakeClosure); ok {
						cl := mc.Fn.(*ssa.Function)
						for i, bnd := range mc.Bindings {
							if bnd == ssa.Value(a) {
								fv := cl.FreeVars[i]
								for _, fr := range *fv.Referrers() {
									if ld, ok := fr.(*ssa.UnOp); ok && ld.Op == token.MUL {
										if ok2, how := p.optsConsumed(cl, ld, depth+1); ok2 {
											return true, "captured by a closure where it is " + how
										}
									}
								}
							}
						}
					}
				}
			}
		}
	}
	return false, ""
}

func ruleLMClone(p *Prog, r *Reporter) {
	globalP = p
	world := p.NamedType("datalog", "World")
	if world == nil {
		r.Dunno("?", "datalog", "World", "type not found")
		return
	}
	st := world.Underlying().(*types.Struct)
	for _, fn := range p.funcsIn("datalog", "biscuit") {
		for _, a := range allocsOf(fn, "datalog", "World") {
			name := p.FuncName(fn)
			pos := p.instrPos(a)
			fields := litFields(a)
			var src *ssa.Parameter
			for _, pa := range fn.Params {
				if isRepoNamed(pa.Type(), "datalog", "World") {
					src = pa
				}
			}
			v, has := fields["runLimits"]
			if src != nil {
				ok := has && p.D(v) == src.Name()+".runLimits"
				r.Check(ok, pos, name, "World literal", "copy carries the source's runLimits", "a World built from another World does not copy its runLimits: per-block worlds and reset worlds lose the configured limits")
				for i := 0; i < st.NumFields(); i++ {
					if _, set := fields[st.Field(i).Name()]; !set {
						r.Bad(pos, name, "World literal field "+st.Field(i).Name(), "field not set in the copy")
					}
				}
			} else {
				ok := has && strings.Contains(p.D(v), "defaultRunLimits")
				r.Check(ok, pos, name, "World literal", "new world starts from defaultRunLimits", "a new World does not start from defaultRunLimits")
			}
		}
	}
	lmWorldStores(p, r)
}

// lmWorldStores: the world an authorizer evaluates is always a copy of its base world (which carries the
// configured limits): every value stored into the world field derives from baseWorld.Clone().
func lmWorldStores(p *Prog, r *Reporter) {
	az := p.NamedType("biscuit", "authorizer")
	if az == nil {
		return
	}
	for _, fn := range p.funcsIn("biscuit") {
		for _, b := range fn.Blocks {
			for _, in := range b.Instrs {
				st, ok := in.(*ssa.Store)
				if !ok {
					continue
				}
				fa, isFA := st.Addr.(*ssa.FieldAddr)
				if !isFA || fieldName(fa) != "world" || !types.Identical(deref(fa.X.Type()), az) {
					continue
				}
				ok = dependsOn(st.Val, func(x ssa.Value) bool {
					c, isC := x.(*ssa.Call)
					return isC && isCallTo(&c.Call, "datalog.World.Clone") && strings.HasSuffix(p.D(c.Call.Args[0]), ".baseWorld")
				})
				r.Check(ok, p.instrPos(st), p.FuncName(fn), "authorizer world", "the evaluated world is a copy of the base world", "the authorizer's world is replaced by "+shortD(st.Val)+", which is not a copy of its base world: the limits given through WithWorldOptions are lost (a new world starts from the defaults)")
			}
		}
	}
}

func ruleLMErr(p *Prog, r *Reporter) {
	globalP = p
	for _, cs := range p.callsTo("datalog.World.Run", "biscuit") {
		name := p.FuncName(cs.fn)
		pos := p.instrPos(cs.call)
		cv, ok := cs.call.(*ssa.Call)
		if !ok {
			r.Bad(pos, name, "World.Run", "Run called in go/defer: its error is lost")
			continue
		}
		tests := nilTests(cv)
		if len(tests) == 0 {
			r.Bad(pos, name, "World.Run", "the error of World.Run is not tested: a run-limit error does not fail the operation")
			continue
		}
		ok2, why := returnsPropagate(tests[0].nonNil, cv)
		if ok2 {
			// the limit sentinels must stay distinguishable: returned as is, or wrapped with %w
			for b := range reachableFrom(tests[0].nonNil) {
				if ret := blockReturn(b); ret != nil {
					if !wrapsWithW(retVal(ret, errorResultIndex(cs.fn)), cv) {
						ok2, why = false, "the run error is re-formatted without %w: errors.Is no longer recognises the exported limit sentinels"
					}
				}
			}
		}
		r.Check(ok2, pos, name, "World.Run", "error tested and returned (identifiable with errors.Is)", "on the err != nil branch: "+why)
	}
}
