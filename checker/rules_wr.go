package main

import (
	"fmt"
	"go/ast"
	"go/constant"
	"go/token"
	"go/types"
	"os"
	"path/filepath"
	"reflect"
	"regexp"
	"sort"
	"strconv"
	"strings"

	"golang.org/x/tools/go/ssa"
)

func init() {
	register(
		&Rule{ID: "WR-PROTO", Doc: "pb/biscuit.proto, the generated struct tags and enum constants agree with the frozen Biscuit v2 schema table", Run: ruleWRProto, Min: 100},
		&Rule{ID: "WR-ENUM", Doc: "wire converters (operators, term kinds, policy kinds) are total, mutually inverse and name-consistent", Run: ruleWREnum, Min: 50},
		&Rule{ID: "WR-SYMS", Doc: "default symbol table, offset 1024 and per-block symbol split points are the specified ones", Run: ruleWRSyms, Min: 8},
		&Rule{ID: "WR-FIELDS", Doc: "every converter reads every field of its source structure and sets every field of its result", Run: ruleWRFields, Min: 20},
		&Rule{ID: "WR-SYMRANGE", Doc: "every decoded block is refused if it uses a symbol or variable index that the table declared so far does not define (a later block must not be able to give an earlier term its meaning)", Run: ruleWRSymRange, Min: 1},
		&Rule{ID: "WR-SYMTAB", Doc: "the token-wide symbol table is a fresh clone extended with the symbols of exactly the blocks the token holds, in block order; new blocks must be disjoint from it", Run: ruleWRSymtab, Min: 8},
		&Rule{ID: "WR-ELEMWISE", Doc: "element-wise conversion loops produce exactly one output element per input element", Run: ruleWRElemwise, Min: 10},
		&Rule{ID: "WR-VERSION", Doc: "blocks outside the supported schema version are rejected; encoders write the supported version", Run: ruleWRVersion, Min: 4},
	)
}

// frozen Biscuit v2 schema (block version 3): "Message.field" -> "label type number"; enums "Message.Enum.Member" -> number.
var frozenSchema = map[string]string{
	"Biscuit.rootKeyId": "optional uint32 1", "Biscuit.authority": "required SignedBlock 2", "Biscuit.blocks": "repeated SignedBlock 3", "Biscuit.proof": "required Proof 4",
	"SignedBlock.block": "required bytes 1", "SignedBlock.nextKey": "required PublicKey 2", "SignedBlock.signature": "required bytes 3",
	"PublicKey.algorithm": "required Algorithm 1", "PublicKey.key": "required bytes 2",
	"Proof.nextSecret": "oneof bytes 1", "Proof.finalSignature": "oneof bytes 2",
	"Block.symbols": "repeated string 1", "Block.context": "optional string 2", "Block.version": "optional uint32 3", "Block.facts_v2": "repeated FactV2 4", "Block.rules_v2": "repeated RuleV2 5", "Block.checks_v2": "repeated CheckV2 6",
	"FactV2.predicate": "required PredicateV2 1",
	"RuleV2.head":      "required PredicateV2 1", "RuleV2.body": "repeated PredicateV2 2", "RuleV2.expressions": "repeated ExpressionV2 3",
	"CheckV2.queries":  "repeated RuleV2 1",
	"PredicateV2.name": "required uint64 1", "PredicateV2.terms": "repeated TermV2 2",
	"TermV2.variable": "oneof uint32 1", "TermV2.integer": "oneof int64 2", "TermV2.string": "oneof uint64 3", "TermV2.date": "oneof uint64 4", "TermV2.bytes": "oneof bytes 5", "TermV2.bool": "oneof bool 6", "TermV2.set": "oneof TermSet 7",
	"TermSet.set":      "repeated TermV2 1",
	"ExpressionV2.ops": "repeated Op 1",
	"Op.value":         "oneof TermV2 1", "Op.unary": "oneof OpUnary 2", "Op.Binary": "oneof OpBinary 3",
	"OpUnary.kind":   "required Kind 1",
	"OpBinary.kind":  "required Kind 1",
	"Policy.queries": "repeated RuleV2 1", "Policy.kind": "required Kind 2",
	"AuthorizerPolicies.symbols": "repeated string 1", "AuthorizerPolicies.version": "optional uint32 2", "AuthorizerPolicies.facts": "repeated FactV2 3", "AuthorizerPolicies.rules": "repeated RuleV2 4", "AuthorizerPolicies.checks": "repeated CheckV2 5", "AuthorizerPolicies.policies": "repeated Policy 6",
}

var frozenEnums = map[string]int{
	"PublicKey.Algorithm.Ed25519": 0,
	"OpUnary.Kind.Negate":         0, "OpUnary.Kind.Parens": 1, "OpUnary.Kind.Length": 2,
	"OpBinary.Kind.LessThan": 0, "OpBinary.Kind.GreaterThan": 1, "OpBinary.Kind.LessOrEqual": 2, "OpBinary.Kind.GreaterOrEqual": 3, "OpBinary.Kind.Equal": 4,
	"OpBinary.Kind.Contains": 5, "OpBinary.Kind.Prefix": 6, "OpBinary.Kind.Suffix": 7, "OpBinary.Kind.Regex": 8, "OpBinary.Kind.Add": 9, "OpBinary.Kind.Sub": 10,
	"OpBinary.Kind.Mul": 11, "OpBinary.Kind.Div": 12, "OpBinary.Kind.And": 13, "OpBinary.Kind.Or": 14, "OpBinary.Kind.Intersection": 15, "OpBinary.Kind.Union": 16,
	"Policy.Kind.Allow": 0, "Policy.Kind.Deny": 1,
}

var frozenDefaultSymbols = []string{"read", "write", "resource", "operation", "right", "time", "role", "owner", "tenant", "namespace", "user", "team", "service", "admin", "email", "group", "member", "ip_address", "client", "client_ip", "domain", "path", "version", "cluster", "node", "hostname", "nonce", "query"}

// parseProto: minimal proto2 reader for the constructs used by biscuit.proto.
func parseProto(src string) (fields map[string]string, enums map[string]int, err error) {
	fields, enums = map[string]string{}, map[string]int{}
	src = regexp.MustCompile(`//[^\n]*`).ReplaceAllString(src, "")
	toks := regexp.MustCompile(`[A-Za-z_][A-Za-z0-9_.]*|[0-9]+|[{}=;]|"[^"]*"`).FindAllString(src, -1)
	type frame struct{ kind, name string }
	var stack []frame
	msgName := func() string {
		for i := len(stack) - 1; i >= 0; i-- {
			if stack[i].kind == "message" {
				return stack[i].name
			}
		}
		return ""
	}
	for i := 0; i < len(toks); i++ {
		t := toks[i]
		switch t {
		case "syntax", "option":
			for i < len(toks) && toks[i] != ";" {
				i++
			}
		case "message", "enum", "oneof":
			if i+2 >= len(toks) || toks[i+2] != "{" {
				return nil, nil, fmt.Errorf("malformed %s declaration", t)
			}
			stack = append(stack, frame{t, toks[i+1]})
			i += 2
		case "}":
			if len(stack) == 0 {
				return nil, nil, fmt.Errorf("unbalanced }")
			}
			stack = stack[:len(stack)-1]
		case ";":
		default:
			if len(stack) == 0 {
				return nil, nil, fmt.Errorf("unexpected token %q", t)
			}
			top := stack[len(stack)-1]
			switch top.kind {
			case "enum":
				// Name = N ;
				if i+3 >= len(toks) || toks[i+1] != "=" {
					return nil, nil, fmt.Errorf("malformed enum member %q", t)
				}
				n, _ := strconv.Atoi(toks[i+2])
				enums[msgName()+"."+top.name+"."+t] = n
				i += 3
			case "oneof":
				// type name = N ;
				if i+4 >= len(toks) || toks[i+2] != "=" {
					return nil, nil, fmt.Errorf("malformed oneof field near %q", t)
				}
				fields[msgName()+"."+toks[i+1]] = "oneof " + t + " " + toks[i+3]
				i += 4
			case "message":
				// label type name = N ;
				if i+5 >= len(toks) || toks[i+3] != "=" {
					return nil, nil, fmt.Errorf("malformed field near %q", t)
				}
				fields[top.name+"."+toks[i+2]] = t + " " + toks[i+1] + " " + toks[i+4]
				i += 5
			}
		}
	}
	return fields, enums, nil
}

func wireKind(protoType string) string {
	switch protoType {
	case "uint32", "uint64", "int64", "int32", "bool":
		return "varint"
	case "bytes", "string":
		return "bytes"
	}
	return "" // message or enum: decided by the caller
}

func ruleWRProto(p *Prog, r *Reporter) {
	globalP = p
	path := filepath.Join(p.Repo, "pb", "biscuit.proto")
	b, err := os.ReadFile(path)
	if err != nil {
		r.Dunno("pb/biscuit.proto", "pb", "schema file", "cannot read: "+err.Error())
		return
	}
	fields, enums, err := parseProto(string(b))
	if err != nil {
		r.Dunno("pb/biscuit.proto", "pb", "schema file", "cannot parse: "+err.Error())
		return
	}
	var keys []string
	for k := range frozenSchema {
		keys = append(keys, k)
	}
	sort.Strings(keys)
	for _, k := range keys {
		got, ok := fields[k]
		r.Check(ok && got == frozenSchema[k], "pb/biscuit.proto", "schema", "field "+k, "= "+frozenSchema[k], "schema field "+k+" is '"+got+"', the published schema says '"+frozenSchema[k]+"': other implementations read a different field")
	}
	for k, v := range fields {
		if _, ok := frozenSchema[k]; !ok {
			r.Bad("pb/biscuit.proto", "schema", "field "+k, "field not in the published schema: "+v)
		}
	}
	keys = keys[:0]
	for k := range frozenEnums {
		keys = append(keys, k)
	}
	sort.Strings(keys)
	for _, k := range keys {
		got, ok := enums[k]
		r.Check(ok && got == frozenEnums[k], "pb/biscuit.proto", "schema", "enum "+k, fmt.Sprintf("= %d", frozenEnums[k]), fmt.Sprintf("enum member %s is %d (present=%v), the published schema says %d", k, got, ok, frozenEnums[k]))
	}
	for k := range enums {
		if _, ok := frozenEnums[k]; !ok {
			r.Bad("pb/biscuit.proto", "schema", "enum "+k, "enum member not in the published schema")
		}
	}
	// generated code: struct tags
	pk := p.Pkgs["pb"].Types
	isEnum := func(t string, msg string) bool {
		for k := range frozenEnums {
			parts := strings.Split(k, ".")
			if parts[0] == msg && parts[1] == t {
				return true
			}
		}
		return false
	}
	keys = keys[:0]
	for k := range frozenSchema {
		keys = append(keys, k)
	}
	sort.Strings(keys)
	for _, k := range keys {
		parts := strings.SplitN(k, ".", 2)
		msg, fname := parts[0], parts[1]
		spec := strings.Fields(frozenSchema[k])
		label, ptype, num := spec[0], spec[1], spec[2]
		wk := wireKind(ptype)
		if wk == "" {
			if isEnum(ptype, msg) {
				wk = "varint"
			} else {
				wk = "bytes"
			}
		}
		lab := map[string]string{"optional": "opt", "required": "req", "repeated": "rep", "oneof": "opt"}[label]
		found := false
		// struct msg or one of its oneof wrapper structs msg_X
		sc := pk.Scope()
		for _, tn := range sc.Names() {
			if tn != msg && !strings.HasPrefix(tn, msg+"_") {
				continue
			}
			o, ok := sc.Lookup(tn).(*types.TypeName)
			if !ok {
				continue
			}
			st, ok := o.Type().Underlying().(*types.Struct)
			if !ok {
				continue
			}
			for i := 0; i < st.NumFields(); i++ {
				tag, ok := reflect.StructTag(st.Tag(i)).Lookup("protobuf")
				if !ok {
					continue
				}
				tp := strings.Split(tag, ",")
				if len(tp) < 4 || tp[3] != "name="+fname {
					continue
				}
				found = true
				okTag := tp[0] == wk && tp[1] == num && tp[2] == lab && (label != "oneof" || strings.HasSuffix(tag, "oneof"))
				r.Check(okTag, "pb/biscuit.pb.go", "pb."+tn, "tag of "+k, "generated tag "+tag+" matches the schema", "generated struct tag '"+tag+"' disagrees with the schema ("+wk+","+num+","+lab+"): generated code out of sync with the published schema")
			}
		}
		if !found {
			r.Bad("pb/biscuit.pb.go", "pb."+msg, "tag of "+k, "no generated struct field carries this schema field")
		}
	}
	// generated enum constants
	keys = keys[:0]
	for k := range frozenEnums {
		keys = append(keys, k)
	}
	sort.Strings(keys)
	for _, k := range keys {
		parts := strings.Split(k, ".")
		cn := parts[0] + "_" + parts[2]
		c, ok := pk.Scope().Lookup(cn).(*types.Const)
		okV := false
		if ok {
			if v, exact := constant.Int64Val(constant.ToInt(c.Val())); exact && int(v) == frozenEnums[k] {
				okV = true
			}
		}
		r.Check(okV, "pb/biscuit.pb.go", "pb", "const "+cn, fmt.Sprintf("= %d", frozenEnums[k]), "generated constant pb."+cn+" is missing or differs from the published enum value")
	}
}

// ---- WR-ENUM

func (p *Prog) switchMapConstToConst(fn *ssa.Function) map[string]string {
	out := map[string]string{}
	info := p.pkgOfFunc(fn).TypesInfo
	for _, tb := range p.switchTables(fn) {
		if tb.isType {
			continue
		}
		for _, e := range tb.entries {
			rs := resultConsts(info, e)
			for _, c := range e.consts {
				if len(rs) == 1 {
					out[c.Name()] = rs[0].Name()
				} else if len(rs) > 1 {
					out[c.Name()] = "?multiple"
				}
			}
		}
	}
	return out
}

func (p *Prog) switchMapConstToLit(fn *ssa.Function) map[string]string {
	out := map[string]string{}
	info := p.pkgOfFunc(fn).TypesInfo
	for _, tb := range p.switchTables(fn) {
		if tb.isType {
			continue
		}
		for _, e := range tb.entries {
			ts := resultLitTypes(info, e)
			for _, c := range e.consts {
				if len(ts) == 1 {
					out[c.Name()] = typeName(ts[0])
				} else if len(ts) > 1 {
					out[c.Name()] = "?multiple"
				}
			}
		}
	}
	return out
}

func ruleWREnum(p *Prog, r *Reporter) {
	globalP = p
	type conv struct {
		enc, dec, dPrefix, pbPrefix string
		frozen                      []string
	}
	for _, k := range []conv{
		{"tokenExprBinaryToProtoExprBinary", "protoExprBinaryToTokenExprBinary", "Binary", "OpBinary_", frozenBinary},
		{"tokenExprUnaryToProtoExprUnary", "protoExprUnaryToTokenExprUnary", "Unary", "OpUnary_", frozenUnary},
	} {
		enc, dec := p.Func("biscuit", "", k.enc), p.Func("biscuit", "", k.dec)
		if enc == nil || dec == nil {
			r.Dunno("?", "biscuit", k.enc+"/"+k.dec, "converter not found")
			continue
		}
		em := p.switchMapConstToConst(enc)
		dm := p.switchMapConstToLit(dec)
		used := map[string]string{}
		for _, n := range k.frozen {
			dn, pn := k.dPrefix+n, k.pbPrefix+n
			r.Check(em[dn] == pn, p.Pos(enc.Pos()), p.FuncName(enc), "encode "+dn, "-> pb."+pn, "datalog."+dn+" is encoded as pb."+em[dn]+" instead of pb."+pn+": the operator is changed on the wire")
			r.Check(dm[pn] == n, p.Pos(dec.Pos()), p.FuncName(dec), "decode "+pn, "-> datalog."+n, "pb."+pn+" is decoded to datalog."+dm[pn]+" instead of datalog."+n+": tokens from other implementations evaluate a different operator")
			if o, dup := used[em[dn]]; dup {
				r.Bad(p.Pos(enc.Pos()), p.FuncName(enc), "encode "+dn, "same wire code as "+o)
			}
			used[em[dn]] = dn
		}
		if len(em) != len(k.frozen) || len(dm) != len(k.frozen) {
			r.Bad(p.Pos(enc.Pos()), p.FuncName(enc), "converter size", fmt.Sprintf("%d encoder and %d decoder clauses for %d specified operators", len(em), len(dm), len(k.frozen)))
		}
	}
	// term kinds
	enc, dec := p.Func("biscuit", "", "tokenIDToProtoIDV2"), p.Func("biscuit", "", "protoIDToTokenIDV2")
	if enc == nil || dec == nil {
		r.Dunno("?", "biscuit", "term converters", "not found")
	} else {
		info := p.Pkgs["biscuit"].TypesInfo
		wrapper := func(n string) string {
			if n == "String" {
				return "TermV2_String_"
			}
			return "TermV2_" + n
		}
		encMap := map[string][]string{}
		for _, tb := range p.switchTables(enc) {
			if tb.isType {
				continue
			}
			for _, e := range tb.entries {
				var lits []string
				for _, s := range e.body {
					ast.Inspect(s, func(n ast.Node) bool {
						if cl, ok := n.(*ast.CompositeLit); ok {
							if tv, ok := info.Types[cl]; ok && strings.HasPrefix(typeName(tv.Type), "TermV2_") {
								lits = append(lits, typeName(tv.Type))
							}
						}
						return true
					})
				}
				for _, c := range e.consts {
					if strings.HasPrefix(c.Name(), "TermType") && len(lits) > 0 {
						encMap[c.Name()] = lits
					}
				}
			}
		}
		decMap := map[string][]string{}
		for _, tb := range p.switchTables(dec) {
			if !tb.isType {
				continue
			}
			for _, e := range tb.entries {
				var produced []string
				for _, s := range e.body {
					ast.Inspect(s, func(n ast.Node) bool {
						switch x := n.(type) {
						case *ast.CallExpr:
							if tv, ok := info.Types[x.Fun]; ok && tv.IsType() {
								if nt, isN := tv.Type.(*types.Named); isN && nt.Obj().Pkg() != nil && shortNames[nt.Obj().Pkg().Path()] == "datalog" {
									produced = append(produced, nt.Obj().Name())
								}
							}
							if id, ok := x.Fun.(*ast.Ident); ok && id.Name == "make" && len(x.Args) > 0 {
								if tv, ok := info.Types[x.Args[0]]; ok {
									if nt, isN := tv.Type.(*types.Named); isN && shortNames[nt.Obj().Pkg().Path()] == "datalog" {
										produced = append(produced, nt.Obj().Name())
									}
								}
							}
						}
						return true
					})
				}
				for _, t := range e.typs {
					decMap[typeName(t)] = dedupStrings(produced)
				}
			}
		}
		for _, n := range frozenTermKinds {
			w := wrapper(n)
			got := encMap["TermType"+n]
			r.Check(len(got) == 1 && got[0] == w, p.Pos(enc.Pos()), p.FuncName(enc), "encode TermType"+n, "-> pb."+w, fmt.Sprintf("datalog term kind %s is encoded as %v instead of pb.%s", n, got, w))
			gd := decMap[w]
			okD := len(gd) == 1 && gd[0] == n
			r.Check(okD, p.Pos(dec.Pos()), p.FuncName(dec), "decode "+w, "-> datalog."+n, fmt.Sprintf("pb.%s is decoded to %v instead of datalog.%s", w, gd, n))
		}
	}
	// expression op kinds
	encE, decE := p.Func("biscuit", "", "tokenExpressionToProtoExpressionV2"), p.Func("biscuit", "", "protoExpressionToTokenExpressionV2")
	if encE == nil || decE == nil {
		r.Dunno("?", "biscuit", "expression converters", "not found")
	} else {
		info := p.Pkgs["biscuit"].TypesInfo
		want := map[string]string{"OpTypeValue": "Op_Value", "OpTypeUnary": "Op_Unary", "OpTypeBinary": "Op_Binary"}
		got := map[string]string{}
		for _, tb := range p.switchTables(encE) {
			for _, e := range tb.entries {
				for _, c := range e.consts {
					for _, s := range e.body {
						ast.Inspect(s, func(n ast.Node) bool {
							if cl, ok := n.(*ast.CompositeLit); ok {
								if tv, ok := info.Types[cl]; ok && strings.HasPrefix(typeName(tv.Type), "Op_") {
									got[c.Name()] = typeName(tv.Type)
								}
							}
							return true
						})
					}
				}
			}
		}
		for k, w := range want {
			r.Check(got[k] == w, p.Pos(encE.Pos()), p.FuncName(encE), "encode "+k, "-> pb."+w, "expression element kind "+k+" is encoded as pb."+got[k]+" instead of pb."+w)
		}
		wantD := map[string]string{"Op_Value": "Value", "Op_Unary": "UnaryOp", "Op_Binary": "BinaryOp"}
		gotD := map[string]string{}
		for _, tb := range p.switchTables(decE) {
			if !tb.isType {
				continue
			}
			for _, e := range tb.entries {
				for _, t := range e.typs {
					for _, lt := range resultLitTypes(info, e) {
						gotD[typeName(t)] = typeName(lt)
					}
				}
			}
		}
		for k, w := range wantD {
			r.Check(gotD[k] == w, p.Pos(decE.Pos()), p.FuncName(decE), "decode "+k, "-> datalog."+w, "pb."+k+" is decoded to datalog."+gotD[k]+" instead of datalog."+w)
		}
	}
}

// ---- WR-SYMS

func ruleWRSyms(p *Prog, r *Reporter) {
	globalP = p
	// DEFAULT_SYMBOLS literal
	var lits []string
	found := false
	for _, f := range p.Pkgs["datalog"].Syntax {
		ast.Inspect(f, func(n ast.Node) bool {
			vs, ok := n.(*ast.ValueSpec)
			if !ok {
				return true
			}
			for i, nm := range vs.Names {
				if nm.Name == "DEFAULT_SYMBOLS" && i < len(vs.Values) {
					found = true
					if cl, ok := vs.Values[i].(*ast.CompositeLit); ok {
						for _, e := range cl.Elts {
							if bl, ok := e.(*ast.BasicLit); ok && bl.Kind == token.STRING {
								s, _ := strconv.Unquote(bl.Value)
								lits = append(lits, s)
							}
						}
					}
				}
			}
			return true
		})
	}
	okDef := found && len(lits) == len(frozenDefaultSymbols)
	diff := ""
	if okDef {
		for i := range lits {
			if lits[i] != frozenDefaultSymbols[i] {
				okDef = false
				diff = fmt.Sprintf("index %d is %q, specification says %q", i, lits[i], frozenDefaultSymbols[i])
				break
			}
		}
	} else {
		diff = fmt.Sprintf("%d symbols, specification has %d", len(lits), len(frozenDefaultSymbols))
	}
	r.Check(okDef, "datalog/symbol.go", "datalog.DEFAULT_SYMBOLS", "default symbol table", "equals the 28 default symbols of the specification, in order", "default symbol table differs from the specification ("+diff+"): symbol indexes below 1024 mean different strings to other implementations")
	// OFFSET
	if g, ok := p.SSAPkg["datalog"].Members["OFFSET"].(*ssa.Global); ok {
		val := int64(-1)
		nStores := 0
		for _, fn := range p.funcsIn("datalog", "biscuit", "parser") {
			for _, b := range fn.Blocks {
				for _, in := range b.Instrs {
					if st, ok := in.(*ssa.Store); ok && st.Addr == ssa.Value(g) {
						nStores++
						if k, isC := constInt(st.Val); isC && p.isInitFunc(fn) {
							val = k
						} else {
							val = -2
						}
					}
				}
			}
		}
		r.Check(val == 1024 && nStores == 1, "datalog/symbol.go", "datalog.OFFSET", "offset", "initialised to 1024 and never assigned", fmt.Sprintf("OFFSET is %d / assigned %d time(s); the specification fixes 1024", val, nStores))
	} else if c := constByName(p, "datalog", "OFFSET"); c != nil {
		r.Check(*c == 1024, "datalog/symbol.go", "datalog.OFFSET", "offset", "constant 1024", fmt.Sprintf("OFFSET is %d", *c))
	} else {
		r.Dunno("datalog/symbol.go", "datalog.OFFSET", "offset", "OFFSET not found")
	}
	// thresholds in the lookup/intern functions
	for _, m := range []string{"Insert", "Sym", "Index", "Str", "Var"} {
		fn := p.Func("datalog", "SymbolTable", m)
		if fn == nil {
			r.Dunno("?", "datalog.SymbolTable."+m, "threshold", "method not found")
			continue
		}
		uses := 0
		bad := ""
		// the method and the helpers of the table it delegates to (one level)
		scope := []*ssa.Function{fn}
		for _, c := range callsIn(fn) {
			if h := c.Common().StaticCallee(); h != nil && h != fn && h.Blocks != nil && h.Pkg == fn.Pkg {
				scope = append(scope, h)
			}
		}
		var blocks []*ssa.BasicBlock
		for _, f2 := range scope {
			blocks = append(blocks, f2.Blocks...)
		}
		for _, b := range blocks {
			for _, in := range b.Instrs {
				bo, ok := in.(*ssa.BinOp)
				if !ok {
					continue
				}
				// a length pre-filter on the string looked up: exact iff it only excludes strings longer than every default symbol
				if k, isC := constInt(bo.Y); isC && strings.HasPrefix(p.D(bo.X), "len(") && isStringLen(bo.X) {
					maxLen := 0
					for _, ds := range frozenDefaultSymbols {
						if len(ds) > maxLen {
							maxLen = len(ds)
						}
					}
					switch {
					case bo.Op == token.GTR && int(k) >= maxLen, bo.Op == token.GEQ && int(k) > maxLen:
					default:
						bad = fmt.Sprintf("the string looked up is filtered by its length against %d, but the longest default symbol has %d characters: a default symbol is not found, interned as a new symbol and declared in the block's own table", k, maxLen)
					}
					continue
				}
				for _, op := range []ssa.Value{bo.X, bo.Y} {
					if strings.Contains(p.D(op), "@datalog.OFFSET") {
						uses++
					}
					if k, isC := constInt(op); isC {
						switch {
						case k == 1024:
							uses++
						case k == int64(len(frozenDefaultSymbols)) || k == int64(len(frozenDefaultSymbols))-1:
							// len(DEFAULT_SYMBOLS) (a constant: the table is an array)
						case k > 1 || k < -1:
							bad = fmt.Sprintf("constant %d used in symbol arithmetic", k)
						}
					}
				}
			}
		}
		r.Check(uses > 0 && bad == "", p.Pos(fn.Pos()), p.FuncName(fn), "threshold", "uses offset 1024 only", firstNonEmpty(bad, "no use of the offset 1024"))
	}
	// lookups accept exactly the valid range: the tightest upper bound on a table index is the table's length
	stT := p.NamedType("datalog", "SymbolTable")
	for _, fn := range p.funcsIn("datalog") {
		if fn.Signature.Recv() == nil || stT == nil || !types.Identical(deref(fn.Signature.Recv().Type()), stT) {
			continue
		}
		rls := rangeLoops(fn)
		for _, b := range fn.Blocks {
			for _, in := range b.Instrs {
				ia, ok := in.(*ssa.IndexAddr)
				if !ok {
					continue
				}
				if _, isConst := constInt(ia.Index); isConst {
					continue
				}
				isRange := false
				for _, rl := range rls {
					if ia.Index == ssa.Value(rl.incr) {
						isRange = true
					}
				}
				if isRange {
					continue
				}
				tight, why := tightestUpperBound(p, b, ia)
				r.Check(tight, p.instrPos(ia), p.FuncName(fn), "exact range of "+normaliseD(shortD(ia.Index)), "the index is accepted exactly when it is below the length of the table", why)
			}
		}
	}
	// builders record the split point and split there
	for _, spec := range []struct{ recv, name string }{{"", "NewBlockBuilder"}, {"", "NewBuilder"}, {"symbolsOption", "applyToBuilder"}} {
		fn := p.Func("biscuit", spec.recv, spec.name)
		if fn == nil {
			r.Dunno("?", "biscuit."+spec.name, "symbolsStart", "function not found")
			continue
		}
		ok := false
		var startSrc, symSrc string
		for _, b := range fn.Blocks {
			for _, in := range b.Instrs {
				st, isSt := in.(*ssa.Store)
				if !isSt {
					continue
				}
				fa, isFA := st.Addr.(*ssa.FieldAddr)
				if !isFA {
					continue
				}
				switch fieldName(fa) {
				case "symbolsStart":
					if c, isC := st.Val.(*ssa.Call); isC && isCallTo(&c.Call, "datalog.SymbolTable.Len") {
						startSrc = p.D(c.Call.Args[0])
					}
				case "symbols":
					symSrc = p.D(st.Val)
				}
			}
		}
		// the table whose length is recorded is the table the builder starts from (or a clone of it)
		ok = startSrc != "" && (symSrc == startSrc || symSrc == "datalog.SymbolTable.Clone("+startSrc+")")
		r.Check(ok, p.Pos(fn.Pos()), p.FuncName(fn), "symbolsStart", "records Len() of the table the builder starts from", "the split point recorded ("+startSrc+".Len()) is not the length of the builder's starting table ("+symSrc+"): per-block symbol tables are cut at the wrong index")
	}
	for _, recv := range []string{"blockBuilder", "builderOptions"} {
		fn := p.Func("biscuit", recv, "Build")
		if fn == nil {
			r.Dunno("?", "biscuit."+recv+".Build", "SplitOff", "not found")
			continue
		}
		ok := false
		for _, c := range callsIn(fn) {
			if isCallTo(c.Common(), "datalog.SymbolTable.SplitOff") {
				a := c.Common().Args
				B := fn.Params[0].Name()
				// split the builder's table itself, or a clone of it (a builder that stays usable)
				if (p.D(a[0]) == B+".symbols" || p.D(a[0]) == "datalog.SymbolTable.Clone("+B+".symbols)") && p.D(a[1]) == B+".symbolsStart" {
					ok = true
				}
			}
		}
		r.Check(ok, p.Pos(fn.Pos()), p.FuncName(fn), "SplitOff", "block symbols = builder symbols split at symbolsStart", "the block's symbol table is not builder.symbols.SplitOff(builder.symbolsStart)")
	}
}

// ---- WR-FIELDS

var convStructs = map[string]bool{
	"biscuit.Block": true, "datalog.Rule": true, "datalog.Predicate": true, "datalog.Check": true, "datalog.Fact": true,
	"biscuit.Rule": true, "biscuit.Predicate": true, "biscuit.Check": true, "biscuit.Fact": true,
	"pb.Block": true, "pb.RuleV2": true, "pb.PredicateV2": true, "pb.CheckV2": true, "pb.FactV2": true,
}

func convStructOf(t types.Type) (*types.Named, bool) {
	n, ok := deref(t).(*types.Named)
	if !ok || n.Obj().Pkg() == nil {
		return nil, false
	}
	key := shortNames[n.Obj().Pkg().Path()] + "." + n.Obj().Name()
	return n, convStructs[key]
}

func ruleWRFields(p *Prog, r *Reporter) {
	globalP = p
	for _, fn := range p.funcsIn("biscuit") {
		if fn.Parent() != nil {
			continue
		}
		var src *ssa.Parameter
		var srcT *types.Named
		for _, pa := range fn.Params {
			if n, ok := convStructOf(pa.Type()); ok {
				src, srcT = pa, n
			}
		}
		if src == nil || fn.Signature.Results().Len() == 0 {
			continue
		}
		dstT, ok := convStructOf(fn.Signature.Results().At(0).Type())
		if !ok || types.Identical(dstT, srcT) {
			continue
		}
		name := p.FuncName(fn)
		// (a) reads every field of the source
		st := srcT.Underlying().(*types.Struct)
		read := map[string]bool{}
		for _, b := range fn.Blocks {
			for _, in := range b.Instrs {
				switch x := in.(type) {
				case *ssa.FieldAddr:
					if types.Identical(deref(x.X.Type()), srcT) && (x.X == ssa.Value(src) || rootIsParamCopy(x.X, src)) {
						read[fieldName(x)] = true
					}
				case *ssa.Field:
					if x.X == ssa.Value(src) {
						read[x.X.Type().Underlying().(*types.Struct).Field(x.Field).Name()] = true
					}
				case ssa.CallInstruction:
					if f := x.Common().StaticCallee(); f != nil && strings.HasPrefix(f.Name(), "Get") && len(x.Common().Args) > 0 && x.Common().Args[0] == ssa.Value(src) {
						read[strings.TrimPrefix(f.Name(), "Get")] = true
					}
				}
			}
		}
		for i := 0; i < st.NumFields(); i++ {
			f := st.Field(i)
			if !isPayloadField(srcT, st, i) {
				continue
			}
			r.Check(read[f.Name()], p.Pos(fn.Pos()), name, "reads "+typeName(srcT)+"."+f.Name(), "source field is converted", "converter never reads "+typeName(srcT)+"."+f.Name()+": that part of the block is silently dropped")
		}
		// (b) every result literal sets every field
		dst := dstT.Underlying().(*types.Struct)
		nLit := 0
		for _, a := range allocsOf(fn, shortNames[dstT.Obj().Pkg().Path()], dstT.Obj().Name()) {
			nLit++
			set := litFields(a)
			for i := 0; i < dst.NumFields(); i++ {
				f := dst.Field(i)
				if !isPayloadField(dstT, dst, i) {
					continue
				}
				_, ok := set[f.Name()]
				r.Check(ok, p.instrPos(a), name, "sets "+typeName(dstT)+"."+f.Name(), "result field is filled", "converter result leaves "+typeName(dstT)+"."+f.Name()+" unset: that part is lost in conversion")
			}
		}
		if nLit == 0 {
			r.Bad(p.Pos(fn.Pos()), name, "result literal", "converter builds no "+typeName(dstT)+" literal")
		}
	}
}

func rootIsParamCopy(v ssa.Value, pa *ssa.Parameter) bool {
	a, ok := v.(*ssa.Alloc)
	if !ok {
		return false
	}
	for _, st := range storesDirect(a) {
		if st.Val == ssa.Value(pa) {
			return true
		}
	}
	return false
}

// isPayloadField: exported protobuf data field, or any field of the library's own structs.
func isPayloadField(n *types.Named, st *types.Struct, i int) bool {
	if shortNames[n.Obj().Pkg().Path()] == "pb" {
		_, has := reflect.StructTag(st.Tag(i)).Lookup("protobuf")
		return has
	}
	return true
}

// ---- WR-VERSION

func ruleWRVersion(p *Prog, r *Reporter) {
	globalP = p
	minV, maxV := constByName(p, "biscuit", "MinSchemaVersion"), constByName(p, "biscuit", "MaxSchemaVersion")
	r.Check(minV != nil && maxV != nil && *minV == 3 && *maxV == 3, "types.go", "biscuit", "schema version constants", "Min = Max = 3", "MinSchemaVersion/MaxSchemaVersion are not the supported version 3")
	dec := p.Func("biscuit", "", "protoBlockToTokenBlock")
	if dec == nil {
		r.Dunno("?", "biscuit.protoBlockToTokenBlock", "decoder", "not found")
	} else {
		in := dec.Params[0].Name()
		ver := "pb.Block.GetVersion(" + in + ")"
		for _, ret := range returnsOf(dec) {
			if isErrorReturn(ret) {
				continue
			}
			lower, upper := false, false
			for _, g := range guardsOf(ret.Block()) {
				bo, ok := g.cond.(*ssa.BinOp)
				if !ok || p.D(bo.X) != ver {
					continue
				}
				k, isC := constInt(bo.Y)
				if !isC {
					continue
				}
				switch {
				case bo.Op == token.EQL && g.val && k == 3:
					lower, upper = true, true
				case bo.Op == token.LSS && !g.val && k == 3, bo.Op == token.GEQ && g.val && k == 3, bo.Op == token.GTR && g.val && k == 2:
					lower = true
				case bo.Op == token.GTR && !g.val && k == 3, bo.Op == token.LEQ && g.val && k == 3, bo.Op == token.LSS && g.val && k == 4:
					upper = true
				}
			}
			r.Check(lower, p.instrPos(ret), p.FuncName(dec), "version lower bound", "a block is accepted only with version >= 3", "a block declaring a schema version below 3 can be accepted")
			r.Check(upper, p.instrPos(ret), p.FuncName(dec), "version upper bound", "a block is accepted only with version <= 3", "a block declaring a schema version above 3 can be accepted")
			// decoded version recorded
			if a, ok := retVal(ret, 0).(*ssa.Alloc); ok {
				r.Check(p.D(litFields(a)["version"]) == ver, p.instrPos(ret), p.FuncName(dec), "version recorded", "the decoded block keeps its declared version", "the decoded block does not keep the declared version")
			}
		}
	}
	enc := p.Func("biscuit", "", "tokenBlockToProtoBlock")
	if enc == nil {
		r.Dunno("?", "biscuit.tokenBlockToProtoBlock", "encoder", "not found")
	} else {
		ok := false
		for _, a := range allocsOf(enc, "pb", "Block") {
			v := litFields(a)["Version"]
			if c, isC := v.(*ssa.Call); isC && p.D(c.Call.Args[0]) == enc.Params[0].Name()+".version" {
				ok = true
			}
		}
		r.Check(ok, p.Pos(enc.Pos()), p.FuncName(enc), "version written", "the block's version field is written from the block", "the encoder does not write the block's version")
	}
	// builders stamp the supported version
	for _, recv := range []string{"blockBuilder", "builderOptions"} {
		fn := p.Func("biscuit", recv, "Build")
		if fn == nil {
			continue
		}
		for _, a := range allocsOf(fn, "biscuit", "Block") {
			k, isC := constInt(litFields(a)["version"])
			r.Check(isC && k == 3, p.instrPos(a), p.FuncName(fn), "built block version", "built blocks carry version 3", "a built block does not carry schema version 3")
		}
	}
}

var converterName = regexp.MustCompile(`^(token|proto).*To(Proto|Token)|^convert$|^fromDatalog`)

func ruleWRElemwise(p *Prog, r *Reporter) {
	globalP = p
	for _, fn := range p.funcsIn("biscuit") {
		if fn.Parent() != nil || !converterName.MatchString(fn.Name()) {
			continue
		}
		name := p.FuncName(fn)
		// every element gets its own storage: no address of a variable declared outside a loop is stored into an
		// object built on every iteration
		for _, bad := range loopSharedAddresses(p, fn) {
			r.Bad(bad.pos, name, "shared address "+bad.what, "the address of a variable declared outside the loop is stored into an object built on every iteration: all "+bad.what+" values on the wire end up equal to the last one")
		}
		// converters are pure re-encodings: no arithmetic on the converted scalars (only loop counters)
		rls := rangeLoops(fn)
		for _, b := range fn.Blocks {
			for _, in := range b.Instrs {
				bo, ok := in.(*ssa.BinOp)
				if !ok {
					continue
				}
				switch bo.Op {
				case token.ADD, token.SUB, token.MUL, token.QUO, token.REM, token.SHL, token.SHR, token.AND, token.OR, token.XOR, token.AND_NOT:
				default:
					continue
				}
				if _, _, isInt := intWidth(p, bo.Type()); !isInt {
					continue
				}
				counter := false
				for _, rl := range rls {
					if bo == rl.step {
						counter = true
					}
				}
				if !counter {
					r.Bad(p.instrPos(bo), name, "arithmetic "+normaliseD(shortD(bo)), "a wire converter computes with a converted value instead of re-encoding it unchanged")
				}
			}
		}
		checkElemwiseLoops(p, r, fn, name, nil)
	}
}

// checkElemwiseLoops: in every full-range loop of fn that writes output elements (out[i] = x,
// append, or a call accepted by sink), every iteration that continues has written its element.
func checkElemwiseLoops(p *Prog, r *Reporter, fn *ssa.Function, name string, sink func(*ssa.Call) bool) int {
	checked := 0
	for _, rl := range rangeLoops(fn) {
		if sl, isSl := rl.seq.(*ssa.Slice); isSl && (sl.Low != nil || sl.High != nil) {
			r.Bad(p.instrPos(rl.header.Instrs[0]), name, "loop over "+normaliseD(shortD(rl.seq)), "an element-wise conversion ranges over a sub-slice of its source: elements outside it are dropped")
			continue
		}
		// element writes inside the loop: out[i] = x (i the loop index) or out = append(out, x)
		writes := blockSet{}
		n := 0
		for b := range rl.body {
			for _, in := range b.Instrs {
				switch x := in.(type) {
				case *ssa.Store:
					if ia, ok := x.Addr.(*ssa.IndexAddr); ok && ia.Index == ssa.Value(rl.incr) {
						writes[b] = true
						n++
					}
				case *ssa.Call:
					if bi, ok := x.Call.Value.(*ssa.Builtin); ok && bi.Name() == "append" {
						writes[b] = true
						n++
					} else if sink != nil && sink(x) {
						writes[b] = true
						n++
					}
				}
			}
		}
		if n == 0 {
			continue
		}
		checked++
		ok := true
		for _, latch := range rl.latches {
			if reachAvoiding(rl.bodyBB, latch, writes) {
				ok = false
			}
		}
		r.Check(ok, p.instrPos(rl.header.Instrs[0]), name, "loop over "+normaliseD(shortD(rl.seq)), "every iteration that continues has written its output element", "an input element can be skipped (continue / conditional write) in an element-wise conversion: the converted value has fewer elements than its source (e.g. an operator dropped from an expression on the wire)")
	}
	return checked
}

// tightestUpperBound: among the dominating comparisons of the index with constants / the sequence length,
// the tightest one must be exactly "index < len(sequence)" (not stricter: a valid index must not be rejected).
func tightestUpperBound(p *Prog, blk *ssa.BasicBlock, ia *ssa.IndexAddr) (bool, string) {
	src := stripAllConv(ia.Index)
	srcD := p.D(src)
	var constLen int64 = -1
	lenD := ""
	if arr, ok := deref(ia.X.Type()).Underlying().(*types.Array); ok {
		constLen = arr.Len()
	} else {
		lenD = "len(" + p.D(ia.X) + ")"
	}
	best := int64(1) << 62 // strict bound: idx < best ; for len-relative bounds track offset relative to len
	lenRel := int64(1) << 62
	for _, g := range guardsOf(blk) {
		bo, ok := g.cond.(*ssa.BinOp)
		if !ok {
			continue
		}
		op := bo.Op
		if !g.val {
			switch op {
			case token.LSS:
				op = token.GEQ
			case token.LEQ:
				op = token.GTR
			case token.GTR:
				op = token.LEQ
			case token.GEQ:
				op = token.LSS
			default:
				continue
			}
		}
		l, rr := stripAllConv(bo.X), stripAllConv(bo.Y)
		if p.D(rr) == srcD {
			l, rr = rr, l
			switch op {
			case token.LSS:
				op = token.GTR
			case token.LEQ:
				op = token.GEQ
			case token.GTR:
				op = token.LSS
			case token.GEQ:
				op = token.LEQ
			}
		}
		if p.D(l) != srcD || (op != token.LSS && op != token.LEQ) {
			continue
		}
		add := int64(0)
		if op == token.LEQ {
			add = 1
		}
		if k, isC := constInt(rr); isC {
			if k+add < best {
				best = k + add
			}
			continue
		}
		off := int64(0)
		base := rr
		if sub, isB := rr.(*ssa.BinOp); isB && (sub.Op == token.SUB || sub.Op == token.ADD) {
			if k, isC := constInt(sub.Y); isC {
				base = stripAllConv(sub.X)
				off = k
				if sub.Op == token.SUB {
					off = -k
				}
			}
		}
		if lenD != "" && p.D(base) == lenD {
			if off+add < lenRel {
				lenRel = off + add
			}
		}
	}
	switch {
	case constLen >= 0 && best == constLen:
		return true, ""
	case constLen >= 0 && best < constLen:
		return false, fmt.Sprintf("indexes %d..%d of the table are valid but rejected by the bound test (off-by-one): a valid symbol/variable is printed as <invalid ...>", best, constLen-1)
	case constLen < 0 && lenRel == 0:
		return true, ""
	case constLen < 0 && lenRel < 0:
		return false, "the last valid index of the table is rejected by the bound test (off-by-one)"
	}
	return false, "no exact upper bound 'index < length' found (see PN-INDEX for the safety half)"
}

func ruleWRSymtab(p *Prog, r *Reporter) {
	globalP = p
	for _, fn := range p.funcsIn("biscuit") {
		for _, lit := range allocsOf(fn, "biscuit", "Biscuit") {
			name := p.FuncName(fn)
			pos := p.instrPos(lit)
			f := litFields(lit)
			S, _ := f["symbols"].(*ssa.Call)
			if S == nil || S.Call.StaticCallee() == nil || S.Call.StaticCallee().Name() != "Clone" {
				r.Bad(pos, name, "token symbols", "the token's symbol table is "+shortD(f["symbols"])+", not a fresh Clone(): it is shared with another holder")
				continue
			}
			r.OK(pos, name, "token symbols", "fresh clone of "+shortD(S.Call.Args[0]))
			extendCalls := func() []*ssa.Call {
				var out []*ssa.Call
				for _, c := range callsIn(fn) {
					if cv, ok := c.(*ssa.Call); ok && isCallTo(&cv.Call, "datalog.SymbolTable.Extend") && cv.Call.Args[0] == ssa.Value(S) {
						out = append(out, cv)
					}
				}
				return out
			}()
			var success *ssa.Return
			for _, ret := range returnsOf(fn) {
				if retVal(ret, 0) == ssa.Value(lit) {
					success = ret
				}
			}
			if success == nil {
				r.Dunno(pos, name, "token symbols", "the literal is not returned directly")
				continue
			}
			extendedWith := func(blockD string) *ssa.Call {
				for _, e := range extendCalls {
					if p.D(e.Call.Args[1]) == blockD+".symbols" && (e.Block() == success.Block() || e.Block().Dominates(success.Block())) {
						return e
					}
				}
				return nil
			}
			// a *Block parameter: the block being added (authority in newBiscuit, new block in Append)
			var blockParam *ssa.Parameter
			for _, pa := range fn.Params {
				if isRepoNamed(pa.Type(), "biscuit", "Block") {
					blockParam = pa
				}
			}
			decoding := false
			for _, a := range allocsOf(fn, "pb", "Biscuit") {
				if passedTo(a, "google.golang.org/protobuf/proto.Unmarshal") {
					decoding = true
				}
			}
			switch {
			case blockParam != nil:
				r.Check(extendedWith(blockParam.Name()) != nil, pos, name, "extend with new block", "the new block's symbols are added to the token's table before the token is returned", "the symbols declared by the added block are not added to the token's symbol table: later blocks and printing resolve its symbols wrongly")
				// disjointness test against the table the token extends
				ok := false
				for _, g := range guardsOf(success.Block()) {
					if c, isC := g.cond.(*ssa.Call); isC && g.val && isCallTo(&c.Call, "datalog.SymbolTable.IsDisjoint") && p.D(c.Call.Args[1]) == blockParam.Name()+".symbols" {
						d0 := p.D(c.Call.Args[0])
						if c.Call.Args[0] == ssa.Value(S) || d0 == p.D(S.Call.Args[0]) {
							ok = true
						}
					}
				}
				r.Check(ok, pos, name, "disjoint symbols", "a block that re-declares a symbol already in the token's table is refused", "a block whose symbol table overlaps the token's table is accepted: per-block tables no longer hold 'new symbols only'")
			case decoding:
				// authority first, then every block in order
				var auth *ssa.Call
				for _, e := range extendCalls {
					if strings.HasSuffix(p.D(e.Call.Args[1]), ".symbols") && p.D(e.Call.Args[1]) == p.D(f["authority"])+".symbols" {
						auth = e
					}
				}
				var rl *rangeLoop
				for _, l := range rangeLoops(fn) {
					if strings.HasSuffix(p.D(l.seq), ".Blocks") {
						rl = l
					}
				}
				okOrder := auth != nil && rl != nil && (auth.Block().Dominates(rl.header))
				r.Check(okOrder, pos, name, "authority symbols first", "the authority block's symbols extend the table before any later block", "the authority block's symbols are not added before the later blocks' (symbol indexes shift)")
				okEach := false
				if rl != nil {
					for _, e := range extendCalls {
						if !rl.body[e.Block()] {
							continue
						}
						all := true
						for _, latch := range rl.latches {
							if reachAvoiding(rl.bodyBB, latch, blockSet{e.Block(): true}) {
								all = false
							}
						}
						// the extended table must be the decoded block of this iteration
						fromIter := dependsOn(e.Call.Args[1], func(x ssa.Value) bool { return rl.isElem(x) }) || dependsOn(e.Call.Args[1], func(x ssa.Value) bool {
							ia, ok := x.(*ssa.IndexAddr)
							return ok && ia.Index == ssa.Value(rl.incr)
						})
						if all && fromIter {
							okEach = true
						}
					}
				}
				r.Check(okEach, pos, name, "every block's symbols", "each decoded block's symbols extend the table on every continuing iteration, in block order", "some decoded block's symbols are not added to the cumulative table")
				// Extend drops strings the table already holds: every decoded table must be checked to add only new
				// symbols (a disjointness test before, or a length comparison after), otherwise later indexes shift
				for _, e := range extendCalls {
					okNew := p.extendAddsOnlyNew(fn, e)
					r.Check(okNew, p.instrPos(e), name, "decoded table adds only new symbols", "a block table that repeats a known symbol is refused", "the decoder extends the token-wide table with a block's symbols without checking that all of them are new: Extend silently drops known strings (default symbols, earlier blocks', repeats) and the block's later indexes resolve to other strings, which a later block can supply")
				}
			default:
				// Seal: nothing added
				r.Check(len(extendCalls) == 0, pos, name, "no new symbols", "sealing adds no symbols", "sealing extends the symbol table")
			}
		}
	}
}

// extendAddsOnlyNew: the SymbolTable.Extend call e is accompanied by a test that every received symbol was new
// (a length comparison after it whose failing side only returns errors, or a disjointness test before it).
func (p *Prog) extendAddsOnlyNew(fn *ssa.Function, e *ssa.Call) bool {
	okNew := false
	// after: the path onwards from Extend is guarded by a comparison involving the table's length
	for _, bb := range fn.Blocks {
		if bb != e.Block() && !e.Block().Dominates(bb) {
			continue
		}
		iff := blockIf(bb)
		if iff == nil {
			continue
		}
		bo, isB := iff.Cond.(*ssa.BinOp)
		if !isB || (bo.Op != token.NEQ && bo.Op != token.EQL) {
			continue
		}
		lenOf := func(v ssa.Value) bool {
			return dependsOn(v, func(x ssa.Value) bool {
				c, ok := x.(*ssa.Call)
				if !ok || len(c.Call.Args) == 0 {
					return false
				}
				if f := c.Call.StaticCallee(); f != nil && f.Name() == "Len" && p.D(c.Call.Args[0]) == p.D(e.Call.Args[0]) && instrDominates(e, c) {
					return true
				}
				return false
			})
		}
		if lenOf(bo.X) || lenOf(bo.Y) {
			bad := bb.Succs[0]
			if bo.Op == token.EQL {
				bad = bb.Succs[1]
			}
			if onlyErrorReturnsFrom(bad) {
				okNew = true
			}
		}
	}
	// before: IsDisjoint(table, block symbols) with the overlapping case refused
	for _, g := range guardsOf(e.Block()) {
		if c, isC := g.cond.(*ssa.Call); isC && g.val && isCallTo(&c.Call, "datalog.SymbolTable.IsDisjoint") && p.D(c.Call.Args[1]) == p.D(e.Call.Args[1]) {
			okNew = true
		}
	}
	return okNew
}

// ---- WR-SYMRANGE

// symbolRangeValidator: does fn (with its closures) compare String and Variable indexes of facts, rules and checks
// against the length of a symbol table?
func (p *Prog) symbolRangeValidator(fn *ssa.Function) bool {
	hasLen, hasString, hasVar := false, false, false
	fields := map[string]bool{}
	for _, f := range withClosures(fn) {
		for _, b := range f.Blocks {
			for _, in := range b.Instrs {
				switch x := in.(type) {
				case *ssa.Call:
					if isCallTo(&x.Call, "datalog.SymbolTable.Len") {
						hasLen = true
					}
					if bi, isB := x.Call.Value.(*ssa.Builtin); isB && bi.Name() == "len" && isRepoNamed(deref(x.Call.Args[0].Type()), "datalog", "SymbolTable") {
						hasLen = true
					}
				case *ssa.TypeAssert:
					switch typeName(x.AssertedType) {
					case "String":
						hasString = true
					case "Variable":
						hasVar = true
					}
				case *ssa.FieldAddr:
					fields[fieldName(x)] = true
				case *ssa.Field:
				}
			}
		}
	}
	return hasLen && hasString && hasVar && fields["facts"] && fields["rules"] && fields["checks"]
}

// wrExtendDedup: the disjointness tests of the decoders ("the table grew by exactly the number of
// symbols received") rest on Extend adding a symbol only if the table does not hold it yet - i.e. on
// Extend being the element-wise Insert. Extend must write its receiver only through Insert, once per
// element of the other table.
func wrExtendDedup(p *Prog, r *Reporter) {
	st := p.NamedType("datalog", "SymbolTable")
	var ext *ssa.Function
	if st != nil {
		ext = p.method(st, "Extend")
	}
	if ext == nil || len(ext.Params) < 2 {
		r.Dunno("?", "datalog.SymbolTable", "Extend", "not found")
		return
	}
	name := p.FuncName(ext)
	o := p.own()
	direct := ""
	for _, w := range o.writesOf(ext) {
		if w.org.root == ssa.Value(ext.Params[0]) {
			direct = w.what
		}
	}
	r.Check(direct == "", p.Pos(ext.Pos()), name, "writes only through Insert", "Extend does not write its receiver itself", "Extend writes its receiver directly ("+direct+") instead of through Insert: symbols the table already holds are added again, so the decoders' test 'the table grew by exactly the received symbols' no longer detects a table that repeats a known symbol, and the indexes of the received content resolve to other strings")
	okLoop := false
	for _, l := range rangeLoops(ext) {
		if !dependsOn(l.seq, func(x ssa.Value) bool { return x == ssa.Value(ext.Params[1]) }) {
			continue
		}
		for _, c := range callsIn(ext) {
			cv, isC := c.(*ssa.Call)
			if !isC || cv.Call.StaticCallee() == nil || cv.Call.StaticCallee().Name() != "Insert" || len(cv.Call.Args) < 2 {
				continue
			}
			if cv.Call.Args[0] == ssa.Value(ext.Params[0]) && l.isElem(unwrap(cv.Call.Args[1])) && cv.Block() == l.bodyBB {
				okLoop = true
			}
		}
	}
	r.Check(okLoop, p.Pos(ext.Pos()), name, "every element inserted", "a full-range loop over the other table calls Insert on every element unconditionally", "Extend has no full-range loop over the other table that calls t.Insert(element) unconditionally")
}

func ruleWRSymRange(p *Prog, r *Reporter) {
	globalP = p
	wrExtendDedup(p, r)
	n := 0
	for _, fn := range p.funcsIn("biscuit") {
		var env *ssa.Alloc
		for _, a := range allocsOf(fn, "pb", "Biscuit") {
			if passedTo(a, "google.golang.org/protobuf/proto.Unmarshal") {
				env = a
			}
		}
		if env == nil {
			continue
		}
		n++
		name := p.FuncName(fn)
		// the decoded blocks: results of protoBlockToTokenBlock
		for _, c := range callsIn(fn) {
			cv, ok := c.(*ssa.Call)
			if !ok || cv.Call.StaticCallee() == nil || cv.Call.StaticCallee().Name() != "protoBlockToTokenBlock" {
				continue
			}
			blk := extractOf(cv, 0)
			okV := false
			if len(blk) > 0 {
				for _, c2 := range callsIn(fn) {
					v2, isV := c2.(*ssa.Call)
					if !isV || v2.Call.StaticCallee() == nil || !p.isRepoFunc(v2.Call.StaticCallee()) || !p.symbolRangeValidator(v2.Call.StaticCallee()) {
						continue
					}
					uses := false
					for _, a := range v2.Call.Args {
						if a == ssa.Value(blk[0]) {
							uses = true
						}
					}
					if !uses || !instrDominates(cv, v2) {
						continue
					}
					// its error ends the decoding
					for _, nb := range nilTests(v2) {
						if nb.nonNil != nil && onlyErrorReturnsFrom(nb.nonNil) {
							okV = true
						}
					}
				}
			}
			r.Check(okV, p.instrPos(cv), name, "decoded block symbols in range", "the block is validated against the symbols declared so far, and refused otherwise", "a decoded block is accepted without checking that its symbol and variable indexes are defined by the tables declared up to that block: an index nobody declared prints as a placeholder, and a block appended later can declare it and so choose the meaning of a term of an earlier block (an attenuated token authorized where its parent is refused)")
		}
	}
	if n == 0 {
		r.Bad("?", "biscuit", "decoder", "no function decodes a pb.Biscuit envelope")
	}
	// the other decoder that builds a table from received symbols: the policy snapshot loader
	for _, fn := range p.funcsIn("biscuit") {
		var snap *ssa.Parameter
		for _, pa := range fn.Params {
			if isNamed(deref(pa.Type()), pkgPathOf("pb"), "AuthorizerPolicies") {
				snap = pa
			}
		}
		if snap == nil {
			continue
		}
		name := p.FuncName(fn)
		for _, c := range callsIn(fn) {
			e, ok := c.(*ssa.Call)
			if !ok || !isCallTo(&e.Call, "datalog.SymbolTable.Extend") {
				continue
			}
			r.Check(p.extendAddsOnlyNew(fn, e), p.instrPos(e), name, "snapshot table adds only new symbols", "a snapshot table that repeats a known symbol is refused", "the snapshot's symbols extend the authorizer's table without checking that all of them are new: Extend silently drops known strings and every later index of the snapshot resolves to another string")
			// the content is validated against the extended table before any of it is used
			var val *ssa.Call
			for _, c2 := range callsIn(fn) {
				v2, isV := c2.(*ssa.Call)
				if !isV || v2.Call.StaticCallee() == nil || !p.isRepoFunc(v2.Call.StaticCallee()) || !p.symbolRangeValidator(v2.Call.StaticCallee()) || !instrDominates(e, v2) {
					continue
				}
				whole := false
				for _, a := range v2.Call.Args {
					if g, isG := unwrap(a).(*ssa.Call); isG && g.Call.StaticCallee() != nil && p.isRepoFunc(g.Call.StaticCallee()) && len(g.Call.Args) > 0 && g.Call.Args[0] == ssa.Value(snap) {
						fields := map[string]bool{}
						for _, f := range withClosures(g.Call.StaticCallee()) {
							for _, b := range f.Blocks {
								for _, in := range b.Instrs {
									if fa, isFA := in.(*ssa.FieldAddr); isFA {
										fields[fieldName(fa)] = true
									}
								}
							}
						}
						whole = fields["Facts"] && fields["Rules"] && fields["Checks"] && fields["Policies"] && fields["Queries"]
					}
				}
				errEnds := false
				for _, nb := range nilTests(v2) {
					if nb.nonNil != nil && onlyErrorReturnsFrom(nb.nonNil) {
						errEnds = true
					}
				}
				if whole && errEnds {
					val = v2
				}
			}
			okUse := val != nil
			if val != nil {
				for _, c3 := range callsIn(fn) {
					if m, isW := isWorldMethod(c3.Common()); isW && (m == "AddFact" || m == "AddRule") && !instrDominates(val, c3.(ssa.Instruction)) {
						okUse = false
					}
				}
			}
			r.Check(okUse, p.instrPos(e), name, "snapshot symbols in range", "facts, rules, checks and policy queries of the snapshot are validated against the extended table before anything is loaded", "a policy snapshot is loaded without checking that its symbol and variable indexes are defined by its table: an undeclared index becomes a placeholder name, so the restored authorizer decides differently from the saved one and malformed bytes are accepted")
		}
	}
}

// isStringLen: v is len(x) of a string.
func isStringLen(v ssa.Value) bool {
	c, ok := v.(*ssa.Call)
	if !ok {
		return false
	}
	bi, isB := c.Call.Value.(*ssa.Builtin)
	if !isB || bi.Name() != "len" {
		return false
	}
	b, isBasic := c.Call.Args[0].Type().Underlying().(*types.Basic)
	return isBasic && b.Info()&types.IsString != 0
}
